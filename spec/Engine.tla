------------------------------- MODULE Engine -------------------------------
(***************************************************************************)
(* Specification of the durable state machine of `stabilize`: workflow,    *)
(* stage and task rows, the message queue, the dead-letter queue, the      *)
(* processed-message set and the claim table, driven by ONE worker whose   *)
(* handlers are sequences of database commits (a crash or an environment   *)
(* step - recovery sweep, lock expiry, cancel request, time passing - can  *)
(* fall between any two of them).                                          *)
(*                                                                         *)
(* One action per commit / linearization point of the implementation       *)
(* (DESIGN.md 2.3).  Guards mirror the code's decision functions:          *)
(*   Readiness       dag/readiness.py                                      *)
(*   DetermineStatus models/stage/stage.py:determine_status                *)
(*   FinalStatus     handlers/complete_workflow.py:_determine_final_status *)
(*   RecMsgs         recovery.py:_recover_workflow                         *)
(*   Resettable/...  handlers/jump_to_stage/traversal.py                   *)
(* The program (DAG, settings, task scripts) is the constant record P of   *)
(* the generated module Program.                                           *)
(*                                                                         *)
(* Covered: all join types, failure statuses, synthetic before / after      *)
(* children (also chained among themselves), builder-built tasks and the   *)
(* zombie re-plan, jump loops and forward jumps, signals (persistent /      *)
(* transient, buffering), mutex / deferred-choice claim rows, OR-split,     *)
(* cancel (workflow, region), operator pause / unpause / restart, the       *)
(* in-memory duplicate filter, recovery (atomic, or concurrent with the     *)
(* handlers: SplitSweep), dead-lettering, injected look-up faults.          *)
(*                                                                         *)
(* Races between several workers are NOT in this module (a single worker   *)
(* is the only writer of stage rows); they are specified at statement /    *)
(* segment grain in Race.tla, Progress.tla, SuspendRace.tla, Slots.tla,     *)
(* WfRow.tla, Store.tla and Queue.tla.  cnt.sw (the state of a sweep that   *)
(* is under way) is the one piece of a second thread kept here.             *)
(***************************************************************************)
EXTENDS Naturals, Sequences, FiniteSets, TLC, Program

CONSTANTS
  MaxCrashes,     \* bound on Crash
  MaxWithhold,    \* bound on deliveries whose ack is lost (redelivery after the effects committed)
  MaxSweeps,      \* bound on recovery sweeps on a healthy run
  MaxCancels,     \* bound on cancel requests sent
  MaxSignals,     \* bound on signals sent
  MaxEarly,       \* bound on spurious StartStage messages injected (early / late / duplicate)
  MaxStageWait,   \* max_stage_wait_retries
  MaxAttempts,    \* queue max_attempts (and RunTask retry budget)
  AnyOrder,       \* TRUE: any visible message may be polled; FALSE: smallest ord first
  EnvBetween,     \* TRUE: environment steps may fall between the commits of a handler
  FixRetry,       \* TRUE: model the repaired transient-retry counter (see known finding C14)
  MaxPauses,      \* bound on operator pause / unpause rounds
  MaxRestarts,    \* bound on operator RestartStage requests
  MaxRegions,     \* bound on CancelRegion requests
  MaxFaults,      \* bound on injected failures of the durable duplicate look-up
  MaxAdds,        \* bound on AddMultiInstance requests (at most the number of instance stages P declares)
  SplitSweep,     \* TRUE: a recovery sweep may run CONCURRENTLY with the handlers (read / look up / push as separate steps)
  TrustNegative   \* dedup_trust_negative_cache: a negative answer of an authoritative filter skips the durable check

VARIABLES
  wf, st, tk,     \* durable: workflow / stage / task rows
  q, dlq, done,   \* durable: queue rows, dead letters, processed-message ids
  claims,         \* durable: claim table
  nextId, pushed, \* durable: AUTOINCREMENT counter, every message key ever inserted
  wk,             \* volatile: the worker (program counter, message in hand, task outcome) and the in-memory
                  \*           duplicate filter (seen = ids it was told about, auth = negatives may be trusted)
  ledger,         \* ghost: per task the sequence of executions (what the task saw)
  gh,             \* ghost record: starts / rearms per stage, tasks with a recorded result, cancel bookkeeping
  cnt,            \* ghost: bounded-exploration counters (+ cnt.sw: local state of a recovery sweep that is under way)
  lbl             \* ghost: label of the last step (excluded from the fingerprint by VIEW)

durable == <<wf, st, tk, q, dlq, done, claims, nextId, pushed>>
vars    == <<wf, st, tk, q, dlq, done, claims, nextId, pushed, wk, ledger, gh, cnt, lbl>>
View    == <<wf, st, tk, q, dlq, done, claims, nextId, pushed, wk, ledger, gh, cnt>>

-----------------------------------------------------------------------------
(* Program accessors *)
Range(f)      == {f[x] : x \in DOMAIN f}
Stages        == Range(P.stages)
AllTasks      == DOMAIN P.beh
TasksOf(s)    == P.tasks[s]
TaskSet(s)    == Range(P.tasks[s])
LiveSet(s)    == TaskSet(s) \cap DOMAIN tk                            \* task rows that exist (a lazy stage gets its rows when planned)
LiveTasks(s)  == SelectSeq(P.tasks[s], LAMBDA t : t \in DOMAIN tk)
StageOf(t)    == P.stageOf[t]
Upstream(s)   == P.req[s]
Static        == {s \in Stages : P.parent[s] = "" /\ P.instk[s] = 0}   \* the top-level stages the workflow is created with
(* WCP-15: instance stages added at run time by AddMultiInstance are top-level stages too, from the moment their row exists *)
TopLevel      == {s \in Stages : P.parent[s] = "" /\ (P.instk[s] > 0 => s \in DOMAIN st)}
Children(s)   == {c \in Stages : P.parent[c] = s}
Kids(s, ph)   == {c \in Children(s) : P.owner[c] = ph}                \* synthetic children the builder creates
First(s, ph)  == {c \in Kids(s, ph) : P.req[c] = {}}                   \* is_initial(): children may be chained among themselves
InOrder(S)    == SelectSeq(P.stages, LAMBDA x : x \in S)       \* a set of stages in store order
Downstream(s) == {d \in Stages : s \in P.req[d] /\ d \in DOMAIN st}    \* (rows that exist: get_downstream_stages reads the database)
Initial       == {s \in Static : P.req[s] = {}}
SignalTargets == {s \in Stages : \E i \in DOMAIN P.tasks[s] : P.beh[P.tasks[s][i]].k = "suspend"}
IdxStage(s)   == CHOOSE i \in DOMAIN P.stages : P.stages[i] = s
IdxOf(t)      == CHOOSE i \in DOMAIN TasksOf(StageOf(t)) : TasksOf(StageOf(t))[i] = t
NextTask(t)   == IF IdxOf(t) < Len(TasksOf(StageOf(t))) THEN TasksOf(StageOf(t))[IdxOf(t) + 1] ELSE ""

(* Status sets: models/status.py *)
Complete    == {"CANCELED", "SUCCEEDED", "STOPPED", "SKIPPED", "TERMINAL", "FAILED_CONTINUE"}
Continuable == {"SUCCEEDED", "FAILED_CONTINUE", "SKIPPED", "REDIRECT"}
Halt        == {"TERMINAL", "CANCELED", "STOPPED"}
ActiveSt    == {"NOT_STARTED", "RUNNING", "PAUSED", "SUSPENDED"}
Failure     == {"TERMINAL", "STOPPED", "FAILED_CONTINUE"}
ValidTransitions ==
  [NOT_STARTED |-> {"RUNNING", "CANCELED", "SKIPPED", "BUFFERED", "TERMINAL"},
   BUFFERED    |-> {"NOT_STARTED", "RUNNING", "CANCELED", "SKIPPED"},
   RUNNING     |-> {"SUCCEEDED", "FAILED_CONTINUE", "TERMINAL", "CANCELED", "PAUSED", "STOPPED",
                    "SUSPENDED", "REDIRECT", "SKIPPED"},
   PAUSED      |-> {"RUNNING", "CANCELED", "STOPPED"},
   SUSPENDED   |-> {"RUNNING", "CANCELED", "STOPPED"},
   REDIRECT    |-> {"RUNNING", "SUCCEEDED", "CANCELED"},
   SUCCEEDED |-> {}, FAILED_CONTINUE |-> {}, TERMINAL |-> {}, CANCELED |-> {}, STOPPED |-> {},
   SKIPPED |-> {}]
CanTransition(a, b) == a = b \/ b \in ValidTransitions[a]

-----------------------------------------------------------------------------
(* Messages.  `id` is the canonical key <<type, stage, task, k>> = the k-th message of that type
   for that target ever inserted; `ord` is the AUTOINCREMENT row id. *)
NoMsg == <<"none", "", "", 0>>
Proto(typ, s, t) == [id |-> NoMsg, ord |-> 0, typ |-> typ, s |-> s, t |-> t, status |-> "", rc |-> 0,
                     target |-> "", phase |-> "", sig |-> "", pers |-> FALSE,
                     att |-> 0, lock |-> FALSE, delayed |-> FALSE]
StartStageM(s)       == Proto("StartStage", s, "")
StartStageRC(s, n)   == [Proto("StartStage", s, "") EXCEPT !.rc = n, !.delayed = TRUE]
SkipStageM(s)        == Proto("SkipStage", s, "")
CancelStageM(s)      == Proto("CancelStage", s, "")
CompleteStageM(s)    == Proto("CompleteStage", s, "")
StartTaskM(t)        == Proto("StartTask", StageOf(t), t)
RunTaskM(t)          == Proto("RunTask", StageOf(t), t)
RunTaskDelayed(t)    == [Proto("RunTask", StageOf(t), t) EXCEPT !.delayed = TRUE]
CompleteTaskM(t, x)  == [Proto("CompleteTask", StageOf(t), t) EXCEPT !.status = x]
CompleteWorkflowM    == Proto("CompleteWorkflow", "", "")
CompleteWorkflowRC(n) == [Proto("CompleteWorkflow", "", "") EXCEPT !.rc = n, !.delayed = TRUE]
CancelWorkflowM      == Proto("CancelWorkflow", "", "")
StartWorkflowM       == Proto("StartWorkflow", "", "")
JumpM(s, tgt)        == [Proto("JumpToStage", s, "") EXCEPT !.target = tgt]
SignalM(s, pers, k)  == [Proto("SignalStage", s, "") EXCEPT !.sig = IF P.sigSame THEN "x" ELSE ToString(k), !.pers = pers]   \* k-th signal sent (P.sigSame: every signal has the same name and payload)
PauseTaskM(t)        == Proto("PauseTask", StageOf(t), t)
ResumeStageM(s)      == Proto("ResumeStage", s, "")
RestartStageM(s)     == Proto("RestartStage", s, "")
ContinueParentM(s, ph) == [Proto("ContinueParentStage", s, "") EXCEPT !.phase = ph]
AddInstanceM(s)      == Proto("AddMultiInstance", s, "")
CancelRegionM(r)     == [Proto("CancelRegion", "", "") EXCEPT !.sig = r]     \* (the region name travels in the `sig` field)

CountKey(pp, typ, s, t) == Cardinality({x \in pp : x[1] = typ /\ x[2] = s /\ x[3] = t})

RECURSIVE PushSeq(_, _, _, _)
PushSeq(qq, pp, nid, protos) ==
  IF protos = <<>> THEN [q |-> qq, pushed |-> pp, nid |-> nid]
  ELSE LET p   == Head(protos)
           key == <<p.typ, p.s, p.t, CountKey(pp, p.typ, p.s, p.t) + 1>>
           m   == [p EXCEPT !.id = key, !.ord = nid]
       IN PushSeq(qq \cup {m}, pp \cup {key}, nid + 1, Tail(protos))

Map(f(_), seq) == [i \in DOMAIN seq |-> f(seq[i])]

-----------------------------------------------------------------------------
(* Row updates.  Every store_stage bumps the stage version and the version of each of its tasks. *)
Touch(tkf, s) == [t \in DOMAIN tkf |-> IF StageOf(t) = s THEN [tkf[t] EXCEPT !.ver = @ + 1] ELSE tkf[t]]
Bump(stf, s)  == [stf EXCEPT ![s].ver = @ + 1]

-----------------------------------------------------------------------------
(* dag/readiness.py: evaluate_readiness, folded with the handler's any-active test.
   READY | SKIP | WAIT (not ready, some upstream still active: nothing to do) | RETRY *)
UpSt(s)       == {st[u].status : u \in Upstream(s)}
AnyActive(s)  == \E u \in Upstream(s) : st[u].status \in ActiveSt
AndJoin(s, U) ==
  IF \E u \in U : st[u].status \in Halt THEN "SKIP"
  ELSE IF \A u \in U : st[u].status \in Continuable THEN "READY"
  ELSE IF AnyActive(s) THEN "WAIT" ELSE "RETRY"
Readiness(s, bypass) ==
  IF bypass \/ Upstream(s) = {} THEN "READY"
  ELSE LET U == Upstream(s) j == P.join[s] IN
    CASE j = "OR" ->
           IF st[s].act = {"-"} THEN AndJoin(s, U)
           ELSE LET R == U \cap st[s].act IN IF R = {} THEN "READY" ELSE AndJoin(s, R)
      [] j = "MULTI_MERGE" ->
           IF \E u \in U : st[u].status \in Continuable THEN "READY"
           ELSE IF \A u \in U : st[u].status \in Halt THEN "SKIP"
           ELSE IF AnyActive(s) THEN "WAIT" ELSE "RETRY"
      [] j = "DISCRIMINATOR" ->
           IF st[s].fired THEN "RETRY"
           ELSE IF \E u \in U : st[u].status \in Continuable THEN "READY"
           ELSE IF \A u \in U : st[u].status \in Halt THEN "SKIP"
           ELSE IF AnyActive(s) THEN "WAIT" ELSE "RETRY"
      [] j = "N_OF_M" /\ P.thr[s] > 0 ->
           IF st[s].fired THEN "RETRY"
           ELSE LET c == Cardinality({u \in U : st[u].status \in Continuable})
                    a == Cardinality({u \in U : st[u].status \notin Continuable /\ st[u].status \notin Halt})
                IN IF c >= P.thr[s] THEN "READY"
                   ELSE IF c + a < P.thr[s] THEN "SKIP"
                   ELSE IF a > 0 /\ AnyActive(s) THEN "WAIT" ELSE "RETRY"
      [] OTHER -> AndJoin(s, U)

(* models/stage/stage.py: failure_status, determine_status (top-level stage without children) *)
FailureStatus(s) == IF P.cof[s] THEN "FAILED_CONTINUE" ELSE IF P.failp[s] THEN "TERMINAL" ELSE "STOPPED"
DetermineStatus(s) ==
  LET B == {st[c].status : c \in Kids(s, "BEFORE") \cap DOMAIN st}
      A == {st[c].status : c \in Kids(s, "AFTER") \cap DOMAIN st}
      C == B \cup {tk[t].status : t \in LiveSet(s)}
      Inc == {"NOT_STARTED", "RUNNING"}
  IN
  IF C = {} THEN (IF st[s].status = "RUNNING"
                 THEN (IF A \cap Inc # {} THEN "RUNNING" ELSE IF "TERMINAL" \in A THEN "TERMINAL" ELSE "SUCCEEDED")
                 ELSE "NOT_STARTED")
  ELSE IF "TERMINAL" \in C THEN FailureStatus(s)
  ELSE IF "STOPPED" \in C THEN "STOPPED"
  ELSE IF "CANCELED" \in C THEN "CANCELED"
  ELSE IF "PAUSED" \in C THEN "PAUSED"
  ELSE IF "BUFFERED" \in C THEN "BUFFERED"
  ELSE IF "SUSPENDED" \in C THEN "SUSPENDED"
  ELSE IF C \cap Inc # {} THEN "RUNNING"
  ELSE IF ~(C \subseteq {"SUCCEEDED", "SKIPPED", "FAILED_CONTINUE"}) THEN "RUNNING"
  ELSE IF "TERMINAL" \in A THEN "TERMINAL"
  ELSE IF "STOPPED" \in A THEN "STOPPED"
  ELSE IF "CANCELED" \in A THEN "CANCELED"
  ELSE IF A \cap Inc # {} THEN "RUNNING"
  ELSE IF "FAILED_CONTINUE" \in C THEN "FAILED_CONTINUE"
  ELSE "SUCCEEDED"
CoreDone(s) ==   \* all before-children and tasks finished in a continuing status (and there is at least one)
  LET C == {st[c].status : c \in Kids(s, "BEFORE") \cap DOMAIN st} \cup {tk[t].status : t \in LiveSet(s)}
  IN C # {} /\ C \subseteq {"SUCCEEDED", "SKIPPED", "FAILED_CONTINUE"}

(* handlers/complete_workflow.py: _determine_final_status;  "RETRY" = re-queue, "" n/a *)
AllUpComplete(s) == \A u \in Upstream(s) : st[u].status \in {"SUCCEEDED", "FAILED_CONTINUE", "SKIPPED"}
FinalStatus(rc) ==
  LET S == {st[s].status : s \in TopLevel} IN
  IF S \subseteq Continuable THEN "SUCCEEDED"
  ELSE IF "TERMINAL" \in S THEN "TERMINAL"
  ELSE IF "CANCELED" \in S THEN "CANCELED"
  ELSE IF "STOPPED" \in S
          /\ ~\E s \in TopLevel : st[s].status = "RUNNING"
                                  \/ (st[s].status = "NOT_STARTED" /\ AllUpComplete(s))
       THEN "SUCCEEDED"
  ELSE IF rc >= MaxStageWait THEN "TERMINAL"
  ELSE "RETRY"

-----------------------------------------------------------------------------
Idle     == wk.pc = "idle"
Cur      == CHOOSE m \in q : m.id = wk.mid
EnvOK    == Idle \/ EnvBetween
Visible(m) == ~m.lock /\ ~m.delayed /\ m.att < MaxAttempts
SetWk(pc)  == wk' = [wk EXCEPT !.pc = pc]
IdleWk     == [wk EXCEPT !.pc = "idle", !.mid = NoMsg, !.out = "", !.sib = <<>>, !.kids = <<>>]
Label(n)   == lbl' = [name |-> n, mid |-> wk.mid, c |-> TRUE]    \* a step that is a database commit
LabelN(n)  == lbl' = [name |-> n, mid |-> wk.mid, c |-> FALSE]   \* a step without commit

StageRow0 == [status |-> "NOT_STARTED", ver |-> 0, started |-> FALSE, fired |-> FALSE, cb |-> {},
              act |-> {"-"}, bypass |-> FALSE, jumps |-> 0, buf |-> <<>>, sig |-> "", mi |-> 0]   \* buf: names of buffered signals, sig: _signal_name
TaskRow0  == [status |-> "NOT_STARTED", ver |-> 0, prog |-> 0, seen |-> {}]   \* seen: signal names a suspending task has counted
SwIdle    == [phase |-> "idle", rows |-> [wf |-> [status |-> "", canceled |-> FALSE], st |-> <<>>, tk |-> <<>>], msgs |-> <<>>]
Cnt0      == [crashes |-> 0, withheld |-> 0, sweeps |-> 0, cancels |-> 0, signals |-> 0, early |-> 0,
              pauses |-> 0, unpauses |-> 0, restarts |-> 0, regions |-> 0, faults |-> 0, adds |-> 0, needSweep |-> FALSE, sw |-> SwIdle]

Init ==
  /\ wf = [status |-> "NOT_STARTED", canceled |-> FALSE]
  /\ st = [s \in Static |-> StageRow0]
  /\ tk = [t \in {x \in AllTasks : StageOf(x) \in Static /\ ~P.lazy[StageOf(x)]} |-> TaskRow0]   \* a lazy stage's tasks are built when it is planned
  /\ LET r == PushSeq({}, {}, 1, <<StartWorkflowM>>) IN q = r.q /\ pushed = r.pushed /\ nextId = r.nid
  /\ dlq = {} /\ done = {} /\ claims = <<>>
  /\ wk = [pc |-> "idle", mid |-> NoMsg, out |-> "", sib |-> <<>>, kids |-> <<>>, seen |-> {}, auth |-> TRUE]   \* hydrated from an empty store
  /\ ledger = [t \in AllTasks |-> <<>>]
  /\ gh = [starts |-> [s \in Stages |-> 0],      \* NOT_STARTED -> RUNNING claims per stage
           rearms |-> [s \in Stages |-> 0],      \* times a jump re-armed the stage
           resulted |-> {},                      \* tasks whose RunTask result commit is durable (this iteration)
           execAfterCancel |-> 0,                \* task executions after the cancel flag became durable
           unfinishedAtCancel |-> {},            \* stages still needing a task execution when the flag was set
           sent |-> 0, consumed |-> 0, resumes |-> 0, consumedNames |-> <<>>]  \* persistent signals sent / consumed, SUSPENDED -> RUNNING resumes
  /\ cnt = Cnt0
  /\ lbl = [name |-> "Init", mid |-> NoMsg, c |-> FALSE]

(* One store.transaction(): optional processed mark + pushes, everything else given by caller *)
Commit(protos, mark) ==
  LET r == PushSeq(q, pushed, nextId, protos) IN
  /\ q' = r.q /\ pushed' = r.pushed /\ nextId' = r.nid
  /\ done' = IF mark THEN done \cup {wk.mid} ELSE done
NoQueueChange == q' = q /\ pushed' = pushed /\ nextId' = nextId /\ done' = done
Frame(others) == UNCHANGED others

-----------------------------------------------------------------------------
(* Queue processor *)
MinVisible == CHOOSE m \in q : Visible(m) /\ \A o \in q : Visible(o) => m.ord <= o.ord
Poll(m) ==
  /\ Idle /\ m \in q /\ Visible(m) /\ ~cnt.needSweep
  /\ (AnyOrder \/ m = MinVisible)
  /\ q' = (q \ {m}) \cup {[m EXCEPT !.lock = TRUE, !.att = @ + 1]}
  /\ wk' = [wk EXCEPT !.pc = "polled", !.mid = m.id, !.out = ""]
  /\ lbl' = [name |-> "Poll", mid |-> m.id, c |-> TRUE]
  /\ UNCHANGED <<wf, st, tk, dlq, done, claims, nextId, pushed, ledger, gh, cnt>>

(* durable duplicate check (queue/processor/mixins.py:_handle_message) *)
BloomNegativeTrusted == TrustNegative /\ wk.auth /\ wk.mid \notin wk.seen
DedupTrusted ==   \* opt-in fast path: an authoritative filter says "definitely new", no durable read
  /\ wk.pc = "polled" /\ BloomNegativeTrusted
  /\ SetWk("handle") /\ LabelN("DedupTrusted")
  /\ UNCHANGED <<durable, ledger, gh, cnt>>

Dedup ==
  /\ wk.pc = "polled"
  /\ SetWk(IF wk.mid \in done THEN "ack" ELSE "handle")
  /\ LabelN(IF wk.mid \in done THEN "DedupSkip" ELSE "DedupNew")
  /\ UNCHANGED <<durable, ledger, gh, cnt>>

DedupFault ==   \* the durable duplicate look-up itself fails (a momentarily locked database): the handler is NOT entered -
  /\ wk.pc = "polled" /\ cnt.faults < MaxFaults      \* the error leaves the processor like a handler error (reschedule)
  /\ SetWk("failed") /\ LabelN("DedupFault")
  /\ cnt' = [cnt EXCEPT !.faults = @ + 1]
  /\ UNCHANGED <<durable, ledger, gh>>

HRet ==    \* the handler returned; only legal after its last commit or on a no-commit branch
  /\ wk.pc = "hdone"
  /\ SetWk("postmark") /\ LabelN("HRet")
  /\ UNCHANGED <<durable, ledger, gh, cnt>>

PostMark ==
  /\ wk.pc = "postmark"
  /\ done' = done \cup {wk.mid}
  /\ wk' = [wk EXCEPT !.pc = "ack", !.seen = @ \cup {wk.mid}] /\ Label("PostMark")
  /\ UNCHANGED <<wf, st, tk, q, dlq, claims, nextId, pushed, ledger, gh, cnt>>

Ack ==
  /\ wk.pc = "ack"
  /\ q' = q \ {Cur}
  /\ wk' = IdleWk /\ Label("Ack")
  /\ UNCHANGED <<wf, st, tk, dlq, done, claims, nextId, pushed, ledger, gh, cnt>>

Withhold ==   \* the ack is lost: the message stays locked and is redelivered after LockExpire
  /\ wk.pc = "ack" /\ cnt.withheld < MaxWithhold
  /\ wk' = IdleWk /\ LabelN("Withhold")
  /\ cnt' = [cnt EXCEPT !.withheld = @ + 1]
  /\ UNCHANGED <<durable, ledger, gh>>

HRaise ==    \* the handler raised (see the handlers for which states do)
  /\ wk.pc = "raise"
  /\ SetWk("failed") /\ LabelN("HRaise")
  /\ UNCHANGED <<durable, ledger, gh, cnt>>

Reschedule ==  \* processor error path: visible again after retry_delay, lock released
  /\ wk.pc = "failed"
  /\ q' = (q \ {Cur}) \cup {[Cur EXCEPT !.lock = FALSE, !.delayed = TRUE]}
  /\ wk' = IdleWk /\ Label("Reschedule")
  /\ UNCHANGED <<wf, st, tk, dlq, done, claims, nextId, pushed, ledger, gh, cnt>>

-----------------------------------------------------------------------------
(* Handlers.  H == wk.pc = "handle" /\ Cur.typ = ... ; each action is one commit (or a
   no-commit branch, which goes straight to "hdone"). *)
H(typ) == wk.pc = "handle" /\ Cur.typ = typ
NoCommit(name) == /\ SetWk("postmark") /\ LabelN(name) /\ UNCHANGED <<durable, ledger, gh, cnt>>

(* handlers/start_workflow.py *)
(* start_time_expiry: a stage (workflow) whose start window lapsed before it started is skipped (cancelled); the window of
   an "expired" stage lies in the past from the beginning, so it is a static attribute of the program *)
StartExpired(s) == P.enabled[s] = "expired"
WfStartExpired  == "wfExpired" \in DOMAIN P /\ P.wfExpired

StartWorkflow ==
  /\ H("StartWorkflow")
  /\ IF wf.status # "NOT_STARTED" \/ wf.canceled
     THEN NoCommit("StartWorkflowIgnored")
     ELSE IF WfStartExpired
     THEN \* start_time_expiry lapsed: a CancelWorkflow is pushed (a commit of its own), nothing else is written
          /\ Commit(<<CancelWorkflowM>>, FALSE)
          /\ SetWk("hdone") /\ Label("StartWorkflowExpired")
          /\ UNCHANGED <<wf, st, tk, dlq, claims, ledger, gh, cnt>>
     ELSE /\ wf' = [wf EXCEPT !.status = "RUNNING"]
          /\ Commit(Map(StartStageM, InOrder(Initial)), TRUE)
          /\ SetWk("hdone") /\ Label("StartWorkflow")
          /\ UNCHANGED <<st, tk, dlq, claims, ledger, gh, cnt>>

(* handlers/start_stage/handler.py *)
ShouldSkip(s) == P.enabled[s] = "no"
(* WCP-18 milestone (handlers/start_stage/conditions.py:_is_milestone_expired): the stage is enabled only while its milestone
   stage is in the required status; once the milestone stage has COMPLETED in another status the stage is skipped; a
   milestone stage that is still active in another status does not hold it back. *)
MilestoneExpired(s) ==
  /\ P.msref[s] # ""
  /\ \/ P.msref[s] \notin DOMAIN st
     \/ (st[P.msref[s]].status # P.msstatus[s] /\ st[P.msref[s]].status \in Complete)
MutexBlocked(s) == P.mutex[s] # "" /\ \E o \in Stages \ {s} : o \in DOMAIN st /\ P.mutex[o] = P.mutex[s] /\ st[o].status = "RUNNING"
(* the fast path asks only for a stage that has NOT started: a zombie (claimed, killed before its plan commit) already
   holds the choice - its cancelled siblings must not make it cancel itself (fix: property=C11, see known_findings.json) *)
ChoiceClaimed(s) == P.choice[s] # "" /\ st[s].status = "NOT_STARTED"
                    /\ \E o \in Stages \ {s} : o \in DOMAIN st /\ P.choice[o] = P.choice[s] /\ st[o].status # "NOT_STARTED"

MutexKey(s)  == "mutex:" \o P.mutex[s]
ChoiceKey(s) == "choice:" \o P.choice[s]
MutexClaimOK(s) ==   \* persistence/sqlite/transaction.py:acquire_claim(steal_if_owner_terminal=True)
  \/ P.mutex[s] = "" \/ MutexKey(s) \notin DOMAIN claims \/ claims[MutexKey(s)] = s
  \/ claims[MutexKey(s)] \notin DOMAIN st \/ st[claims[MutexKey(s)]].status \in Complete
ChoiceClaimOK(s) ==
  \/ P.choice[s] = "" \/ ChoiceKey(s) \notin DOMAIN claims \/ claims[ChoiceKey(s)] = s
ClaimsAfter(s) ==
  LET K == (IF P.mutex[s] = "" THEN {} ELSE {MutexKey(s)}) \cup (IF P.choice[s] = "" THEN {} ELSE {ChoiceKey(s)})
  IN [k \in DOMAIN claims \cup K |-> IF k \in K THEN s ELSE claims[k]]

(* "zombie": RUNNING without task rows and without synthetic children - the claimer died between its claim commit and its
   plan commit.  A StartStage for it is not ignored: it claims again (CAS on the RUNNING phase) and plans. *)
Zombie(s) == st[s].status = "RUNNING" /\ LiveSet(s) = {} /\ Children(s) \cap DOMAIN st = {}

StartStage ==
  /\ H("StartStage")
  /\ LET s == Cur.s
         r == Readiness(s, st[s].bypass)
     IN
     CASE r = "SKIP" ->      \* an upstream halted: nothing to start, let the workflow finish
            /\ Commit(<<CompleteWorkflowM>>, FALSE)
            /\ SetWk("hdone") /\ Label("StartStageUpstreamHalted")
            /\ UNCHANGED <<wf, st, tk, dlq, claims, ledger, gh, cnt>>
       [] r = "WAIT" -> NoCommit("StartStageNotReady")
       [] r = "RETRY" ->
            IF Cur.rc >= MaxStageWait
            THEN IF CanTransition(st[s].status, "TERMINAL")
                 THEN /\ st' = [Bump(st, s) EXCEPT ![s].status = "TERMINAL"]
                      /\ tk' = Touch(tk, s)
                      /\ Commit(<<CompleteStageM(s)>>, FALSE)
                      /\ SetWk("hdone") /\ Label("StartStageWaitExhausted")
                      /\ UNCHANGED <<wf, dlq, claims, ledger, gh, cnt>>
                 ELSE \* validate_transition raises; generic handler records the error
                      /\ st' = Bump(st, s) /\ tk' = Touch(tk, s)
                      /\ Commit(<<CompleteStageM(s)>>, FALSE)
                      /\ SetWk("hdone") /\ Label("StartStageWaitExhaustedNoop")
                      /\ UNCHANGED <<wf, dlq, claims, ledger, gh, cnt>>
            ELSE /\ Commit(<<StartStageRC(s, Cur.rc + 1)>>, FALSE)
                 /\ SetWk("hdone") /\ Label("StartStageRequeue")
                 /\ UNCHANGED <<wf, st, tk, dlq, claims, ledger, gh, cnt>>
       [] r = "READY" ->
            IF st[s].status # "NOT_STARTED" /\ ~Zombie(s)
            THEN NoCommit("StartStageIgnored")
            ELSE IF ShouldSkip(s)
            THEN /\ Commit(<<SkipStageM(s)>>, TRUE)
                 /\ SetWk("hdone") /\ Label("StartStageDisabled")
                 /\ UNCHANGED <<wf, st, tk, dlq, claims, ledger, gh, cnt>>
            ELSE IF MilestoneExpired(s)
            THEN /\ Commit(<<SkipStageM(s)>>, TRUE)
                 /\ SetWk("hdone") /\ Label("StartStageMilestoneExpired")
                 /\ UNCHANGED <<wf, st, tk, dlq, claims, ledger, gh, cnt>>
            ELSE IF MutexBlocked(s)
            THEN /\ Commit(<<StartStageRC(s, Cur.rc + 1)>>, FALSE)
                 /\ SetWk("hdone") /\ Label("StartStageMutexWait")
                 /\ UNCHANGED <<wf, st, tk, dlq, claims, ledger, gh, cnt>>
            ELSE IF ChoiceClaimed(s)
            THEN /\ Commit(<<CancelStageM(s)>>, TRUE)
                 /\ SetWk("hdone") /\ Label("StartStageChoiceLost")
                 /\ UNCHANGED <<wf, st, tk, dlq, claims, ledger, gh, cnt>>
            ELSE IF StartExpired(s)
            THEN /\ Commit(<<SkipStageM(s)>>, TRUE)
                 /\ SetWk("hdone") /\ Label("StartStageExpired")
                 /\ UNCHANGED <<wf, st, tk, dlq, claims, ledger, gh, cnt>>
            ELSE IF ~MutexClaimOK(s)
            THEN \* claim row held by a live owner: transaction rolled back, StartStage re-queued with a delay
                 /\ Commit(<<StartStageRC(s, Cur.rc + 1)>>, FALSE)
                 /\ SetWk("hdone") /\ Label("StartStageMutexClaimBlocked")
                 /\ UNCHANGED <<wf, st, tk, dlq, claims, ledger, gh, cnt>>
            ELSE IF ~ChoiceClaimOK(s)
            THEN /\ Commit(<<CancelStageM(s)>>, TRUE)
                 /\ SetWk("hdone") /\ Label("StartStageChoiceClaimLost")
                 /\ UNCHANGED <<wf, st, tk, dlq, claims, ledger, gh, cnt>>
            ELSE \* the claim: NOT_STARTED -> RUNNING under version + status compare-and-swap,
                 \* mutex / deferred-choice claim rows in the same transaction
                 /\ st' = [Bump(st, s) EXCEPT ![s].status = "RUNNING", ![s].started = TRUE,
                                              ![s].bypass = FALSE]
                 /\ tk' = Touch(tk, s)
                 /\ claims' = ClaimsAfter(s)
                 /\ gh' = IF Zombie(s) THEN gh ELSE [gh EXCEPT !.starts[s] = @ + 1]   \* a zombie re-plan is not a second start
                 /\ NoQueueChange
                 /\ wk' = [wk EXCEPT !.pc = "ss_claimed",
                                     !.sib = IF P.choice[s] = "" THEN <<>>
                                             ELSE InOrder({o \in DOMAIN st \ {s} : P.choice[o] = P.choice[s]
                                                                                  /\ st[o].status = "NOT_STARTED"}),
                                     !.kids = InOrder(Kids(s, "BEFORE"))]
                 /\ Label("StartStageClaim")
                 /\ UNCHANGED <<wf, dlq, ledger, cnt>>

StartStageCancelSibling ==   \* deferred choice won: one CancelStage per still NOT_STARTED sibling, own commits
  /\ wk.pc = "ss_claimed" /\ wk.sib # <<>>
  /\ Commit(<<CancelStageM(Head(wk.sib))>>, FALSE)
  /\ wk' = [wk EXCEPT !.sib = Tail(@)] /\ Label("StartStageCancelSibling")
  /\ UNCHANGED <<wf, st, tk, dlq, claims, ledger, gh, cnt>>

AddRows(stf, c)  == [x \in DOMAIN stf \cup {c} |-> IF x = c THEN StageRow0 ELSE stf[x]]
AddTasks(tkf, c) == [x \in DOMAIN tkf \cup TaskSet(c) |-> IF x \in TaskSet(c) THEN TaskRow0 ELSE tkf[x]]

StartStageAddChild ==   \* _plan_stage: the builder's before-stages are inserted one commit each (add_stage)
  /\ wk.pc = "ss_claimed" /\ wk.sib = <<>> /\ wk.kids # <<>>
  /\ LET c == Head(wk.kids) IN st' = AddRows(st, c) /\ tk' = AddTasks(tk, c)
  /\ NoQueueChange
  /\ wk' = [wk EXCEPT !.kids = Tail(@)] /\ Label("StartStageAddChild")
  /\ UNCHANGED <<wf, dlq, claims, ledger, gh, cnt>>

(* handlers/start_stage/orchestration.py:_collect_start_messages *)
StartMsgs(s) ==
  LET bef == First(s, "BEFORE") \cap DOMAIN st'   \* evaluated in the plan step: children exist by then
      aft == First(s, "AFTER") \cap DOMAIN st'
  IN IF bef # {} THEN Map(StartStageM, InOrder(bef))
     ELSE IF TasksOf(s) # <<>> THEN <<StartTaskM(TasksOf(s)[1])>>
     ELSE IF aft # {} THEN Map(StartStageM, InOrder(aft))
     ELSE <<CompleteStageM(s)>>

(* what a completing / skipped stage triggers: downstream, its parent (synthetic child), or the workflow *)
Continuation(s) ==
  IF Downstream(s) # {} THEN Map(StartStageM, InOrder(Downstream(s)))
  ELSE IF P.parent[s] # "" THEN <<ContinueParentM(P.parent[s], P.owner[s])>>
  ELSE <<CompleteWorkflowM>>
HaltContinuation(s) == IF P.parent[s] # "" THEN <<CompleteStageM(P.parent[s])>> ELSE <<CompleteWorkflowM>>

(* handlers/complete_stage/split_logic.py - OR-split (WCP-6) with its paired OR-join (WCP-7).  P.split[s] maps some
   of s's downstream stages to the value of their split condition (the evaluator itself is C20's business: the programs
   use constant conditions); a downstream without a condition is activated, and if nothing is activated the first
   downstream in store order is.  The activated set is recorded in the context of every OR-join stage that has an
   activated stage among its prerequisites - one store_stage commit per OR-join, BEFORE the completion transaction. *)
OrSplit(s)   == DOMAIN P.split[s] # {}
SplitYes(s)  == LET D  == Downstream(s)
                    A0 == {d \in D : d \notin DOMAIN P.split[s] \/ P.split[s][d]}
                IN IF ~OrSplit(s) THEN D ELSE IF A0 = {} /\ D # {} THEN {InOrder(D)[1]} ELSE A0
SplitNo(s)   == Downstream(s) \ SplitYes(s)
(* ... of every OR-join stage the handler can SEE: it works on the partial execution retrieve_stage() builds - the stage
   itself, its prerequisites and its synthetic children.  An OR-join below the split is never among them, so under the
   handlers nothing is ever recorded and the OR-join falls back to its all-of rule (which still terminates, because a
   skipped branch ends SKIPPED, a continuable status).  The recording steps are kept: they describe the code. *)
VisibleTo(s) == {s} \cup Upstream(s) \cup Children(s)
OrJoinsOf(s) == InOrder({j \in DOMAIN st \cap VisibleTo(s) : P.join[j] = "OR" /\ P.req[j] \cap SplitYes(s) # {}})
SplitContinuation(s) ==
  IF Downstream(s) # {} THEN Map(StartStageM, InOrder(SplitYes(s))) \o Map(SkipStageM, InOrder(SplitNo(s)))
  ELSE Continuation(s)
RecordBranches(j, s) ==
  /\ st' = [Bump(st, j) EXCEPT ![j].act = (IF @ = {"-"} THEN {} ELSE @) \cup SplitYes(s)]
  /\ tk' = Touch(tk, j)
  /\ NoQueueChange

StartStagePlan ==   \* second commit: planned context + tasks + first continuation + mark
  /\ wk.pc = "ss_claimed" /\ wk.sib = <<>> /\ wk.kids = <<>>
  /\ LET s == Cur.s IN
     /\ st' = [Bump(st, s) EXCEPT ![s].fired = @ \/ P.join[s] \in {"DISCRIMINATOR", "N_OF_M"}]
     /\ tk' = IF LiveSet(s) = {} THEN AddTasks(tk, s) ELSE Touch(tk, s)     \* builder-built tasks: rows inserted here
     /\ Commit(StartMsgs(s), TRUE)
     /\ SetWk("hdone") /\ Label("StartStagePlan")
     /\ UNCHANGED <<wf, dlq, claims, ledger, gh, cnt>>

(* handlers/start_task.py *)
StartTask ==
  /\ H("StartTask")
  /\ LET t == Cur.t s == Cur.s IN
     IF tk[t].status # "NOT_STARTED"
     THEN /\ Commit(<<>>, TRUE) /\ SetWk("hdone") /\ Label("StartTaskIgnored")
          /\ UNCHANGED <<wf, st, tk, dlq, claims, ledger, gh, cnt>>
     ELSE /\ tk' = [Touch(tk, s) EXCEPT ![t].status = "RUNNING"]
          /\ st' = Bump(st, s)
          /\ Commit(<<RunTaskM(t)>>, TRUE)
          /\ SetWk("hdone") /\ Label("StartTask")
          /\ UNCHANGED <<wf, dlq, claims, ledger, gh, cnt>>

(* handlers/run_task/handler.py: guards, then task.execute (not durable), then the result commit *)
(* a suspending task counts each distinct signal name it is resumed with (durably, in the stage context) and
   succeeds once it has counted b.n of them (one by default) *)
SeenAfter(t) == LET cur == st[StageOf(t)].sig IN
                IF P.beh[t].k = "suspend" /\ cur # "" /\ cur \notin tk[t].seen THEN tk[t].seen \cup {cur} ELSE tk[t].seen
Outcome(t) ==
  LET b == P.beh[t] s == StageOf(t) IN
  CASE b.k = "ok" -> "succ"
    [] b.k = "terminal" -> "term"
    [] b.k = "poll" -> IF tk[t].prog < b.n THEN "running" ELSE "succ"
    [] b.k = "transient" -> IF tk[t].prog < b.n THEN "transient" ELSE "succ"
    [] b.k = "transientNoCtx" -> IF Len(ledger[t]) < b.n THEN "transientnc" ELSE "succ"
    [] b.k = "jump" -> IF st[s].jumps < b.n THEN "jump" ELSE "succ"
    [] b.k = "jumpafter" -> IF Len(ledger[t]) >= 1 /\ st[s].jumps < b.n THEN "jump" ELSE "succ"   \* jumps from its 2nd run on
    [] b.k = "suspend" -> IF Cardinality(SeenAfter(t)) >= (IF b.n > 1 THEN b.n ELSE 1) THEN "succ" ELSE "suspend"

JumpTarget(t) ==   \* a script may name a different target per iteration
  LET ts == P.beh[t].targets j == st[StageOf(t)].jumps + 1 IN ts[IF j <= Len(ts) THEN j ELSE Len(ts)]

RunTaskGuard ==
  /\ H("RunTask")
  /\ LET t == Cur.t IN
     /\ tk[t].status # "RUNNING" \/ wf.canceled \/ wf.status \in Complete \/ wf.status = "PAUSED"
     /\ IF tk[t].status # "RUNNING"
        THEN Commit(<<>>, TRUE) /\ Label("RunTaskIgnored")
        ELSE IF wf.canceled \/ wf.status \in Complete
        THEN Commit(<<CompleteTaskM(t, "CANCELED")>>, TRUE) /\ Label("RunTaskCanceled")
        ELSE Commit(<<PauseTaskM(t)>>, TRUE) /\ Label("RunTaskPaused")    \* workflow paused by the operator
     /\ SetWk("hdone")
     /\ UNCHANGED <<wf, st, tk, dlq, claims, ledger, gh, cnt>>

RunTaskExec ==
  /\ H("RunTask")
  /\ LET t == Cur.t s == Cur.s IN
     /\ tk[t].status = "RUNNING" /\ ~wf.canceled /\ wf.status \notin Complete /\ wf.status # "PAUSED"
     /\ ledger' = [ledger EXCEPT ![t] = Append(@, [prog |-> tk[t].prog, jumps |-> st[s].jumps, sig |-> st[s].sig])]
     /\ wk' = [wk EXCEPT !.pc = "rt_result", !.out = Outcome(t)]
     /\ LabelN("RunTaskExec")
     /\ UNCHANGED <<durable, gh, cnt>>

(* handle_exception: retry while attempts + 1 < max_attempts.  `attempts` is what poll_one put on
   the message = the ROW's delivery count.  The retry is a NEW row; the code pushes it with the
   incremented count in the payload, but the row starts at attempts = 0 and the payload count is
   dropped on deserialisation (known finding C14: the budget is never reached).  FixRetry = TRUE
   models the intended design: the new row carries the count. *)
RetryBudgetLeft == Cur.att + 1 < MaxAttempts
RetryMsg(t) == [RunTaskDelayed(t) EXCEPT !.att = IF FixRetry THEN Cur.att ELSE 0]

RunTaskResult ==
  /\ wk.pc = "rt_result"
  /\ LET t == Cur.t s == Cur.s o == wk.out IN
     /\ gh' = IF o \in {"succ", "term", "jump"} \/ (o \in {"transient", "transientnc"} /\ ~RetryBudgetLeft)
              THEN [gh EXCEPT !.resulted = @ \cup {t}]
              ELSE IF o = "suspend" /\ st[s].buf # <<>>
                   THEN [gh EXCEPT !.consumed = @ + 1, !.resumes = @ + 1, !.consumedNames = Append(@, Head(st[s].buf))]
              ELSE gh
     /\ CASE o = "succ" ->
               /\ st' = Bump(st, s) /\ tk' = [Touch(tk, s) EXCEPT ![t].seen = SeenAfter(t)]
               /\ Commit(<<CompleteTaskM(t, "SUCCEEDED")>>, TRUE)
               /\ SetWk("hdone") /\ Label("RunTaskSucceeded")
               /\ UNCHANGED <<wf, dlq, claims, ledger, cnt>>
          [] o = "term" ->
               /\ st' = Bump(st, s) /\ tk' = Touch(tk, s)
               /\ Commit(<<CompleteTaskM(t, FailureStatus(s))>>, TRUE)
               /\ SetWk("hdone") /\ Label("RunTaskTerminal")
               /\ UNCHANGED <<wf, dlq, claims, ledger, cnt>>
          [] o = "running" ->     \* still running: same RunTask re-queued with a delay, no mark
               /\ st' = Bump(st, s)
               /\ tk' = [Touch(tk, s) EXCEPT ![t].prog = @ + 1]
               /\ Commit(<<RunTaskDelayed(t)>>, FALSE)
               /\ SetWk("hdone") /\ Label("RunTaskStillRunning")
               /\ UNCHANGED <<wf, dlq, claims, ledger, cnt>>
          [] o \in {"transient", "transientnc"} ->
               IF RetryBudgetLeft
               THEN /\ IF o = "transient"
                       THEN st' = Bump(st, s) /\ tk' = [Touch(tk, s) EXCEPT ![t].prog = @ + 1]
                       ELSE st' = st /\ tk' = tk
                    /\ Commit(<<RetryMsg(t)>>, FALSE)
                    /\ SetWk("hdone") /\ Label("RunTaskTransientRetry")
                    /\ UNCHANGED <<wf, dlq, claims, ledger, cnt>>
               ELSE /\ st' = Bump(st, s) /\ tk' = Touch(tk, s)
                    /\ Commit(<<CompleteTaskM(t, FailureStatus(s))>>, TRUE)
                    /\ SetWk("hdone") /\ Label("RunTaskRetriesExhausted")
                    /\ UNCHANGED <<wf, dlq, claims, ledger, cnt>>
          [] o = "jump" ->
               /\ st' = Bump(st, s) /\ tk' = Touch(tk, s)
               /\ Commit(<<JumpM(s, JumpTarget(t)), CompleteTaskM(t, "REDIRECT")>>, TRUE)
               /\ SetWk("hdone") /\ Label("RunTaskRedirect")
               /\ UNCHANGED <<wf, dlq, claims, ledger, cnt>>
          [] o = "suspend" ->
               IF st[s].buf # <<>>
               THEN \* the OLDEST buffered signal is consumed and the task re-run in the same commit
                    /\ st' = [Bump(st, s) EXCEPT ![s].buf = Tail(@), ![s].sig = Head(st[s].buf)]
                    /\ tk' = [Touch(tk, s) EXCEPT ![t].seen = SeenAfter(t)]
                    /\ Commit(<<RunTaskM(t)>>, TRUE)
                    /\ SetWk("hdone") /\ Label("RunTaskSuspendConsumed")
                    /\ UNCHANGED <<wf, dlq, claims, ledger, cnt>>
               ELSE /\ st' = [Bump(st, s) EXCEPT ![s].status = "SUSPENDED"]
                    /\ tk' = [Touch(tk, s) EXCEPT ![t].status = "SUSPENDED", ![t].seen = SeenAfter(t)]
                    /\ Commit(<<>>, TRUE)
                    /\ SetWk("hdone") /\ Label("RunTaskSuspended")
                    /\ UNCHANGED <<wf, dlq, claims, ledger, cnt>>

(* handlers/complete_task.py *)
CompleteTask ==
  /\ H("CompleteTask")
  /\ LET t == Cur.t s == Cur.s IN
     IF tk[t].status # "RUNNING"
     THEN /\ Commit(<<>>, TRUE) /\ SetWk("hdone") /\ Label("CompleteTaskIgnored")
          /\ UNCHANGED <<wf, st, tk, dlq, claims, ledger, gh, cnt>>
     ELSE /\ tk' = [Touch(tk, s) EXCEPT ![t].status = Cur.status]
          /\ st' = Bump(st, s)
          /\ Commit(IF Cur.status = "REDIRECT" THEN <<>>
                    ELSE IF NextTask(t) # "" THEN <<StartTaskM(NextTask(t))>>
                    ELSE <<CompleteStageM(s)>>, TRUE)
          /\ SetWk("hdone") /\ Label("CompleteTask")
          /\ UNCHANGED <<wf, dlq, claims, ledger, gh, cnt>>

(* handlers/complete_stage/handler.py *)
JoinTracked(d) == P.join[d] \in {"DISCRIMINATOR", "N_OF_M"}
ToTrack(s) == {d \in Downstream(s) : JoinTracked(d) /\ s \notin st[d].cb}

CompleteStage ==
  /\ H("CompleteStage")
  /\ wk.kids = <<>>
  /\ LET s == Cur.s ds == DetermineStatus(s)
         aft == Kids(s, "AFTER")
         aftEx == First(s, "AFTER") \cap DOMAIN st       \* (first_after_stages(): the handler looks at the initial ones only)
         \* after-stage handling: status complete & not halting, or everything but the (untouched) after-stages done
         handleAfter == \/ ds \in (Complete \ Halt)
                        \/ (ds = "RUNNING" /\ aftEx # {} /\ {st[c].status : c \in aftEx} = {"NOT_STARTED"} /\ CoreDone(s))
     IN
     IF st[s].status = "NOT_STARTED"
     THEN /\ Commit(<<>>, TRUE) /\ SetWk("hdone") /\ Label("CompleteStageNotStarted")
          /\ UNCHANGED <<wf, st, tk, dlq, claims, ledger, gh, cnt>>
     ELSE IF st[s].status # "RUNNING"
     THEN IF st[s].status \in Halt
          THEN /\ Commit(HaltContinuation(s), TRUE) /\ SetWk("hdone") /\ Label("CompleteStageAlreadyHalted")
               /\ UNCHANGED <<wf, st, tk, dlq, claims, ledger, gh, cnt>>
          ELSE NoCommit("CompleteStageIgnored")
     ELSE IF handleAfter /\ aftEx = {} /\ aft # {}
     THEN \* _plan_after_stages: the builder's after-stages are inserted, one commit each (this is the first)
          LET ks == InOrder(aft) IN
          /\ st' = AddRows(st, Head(ks)) /\ tk' = AddTasks(tk, Head(ks))
          /\ NoQueueChange
          /\ wk' = [wk EXCEPT !.pc = IF Len(ks) = 1 THEN "handle" ELSE "cs_after", !.kids = Tail(ks)]
          /\ Label("CompleteStagePlanAfter")
          /\ UNCHANGED <<wf, dlq, claims, ledger, gh, cnt>>
     ELSE IF handleAfter /\ \E c \in aftEx : st[c].status = "NOT_STARTED"
     THEN /\ st' = Bump(st, s) /\ tk' = Touch(tk, s)
          /\ Commit(Map(StartStageM, InOrder({c \in aftEx : st[c].status = "NOT_STARTED"})), TRUE)
          /\ SetWk("hdone") /\ Label("CompleteStageStartAfter")
          /\ UNCHANGED <<wf, dlq, claims, ledger, gh, cnt>>
     ELSE IF ds \in Failure /\ ~handleAfter /\ \E c \in aftEx : st[c].status \notin Complete
     THEN /\ Commit(<<>>, TRUE) /\ SetWk("hdone") /\ Label("CompleteStageChildrenInFlight")
          /\ UNCHANGED <<wf, st, tk, dlq, claims, ledger, gh, cnt>>
     ELSE IF ds = "RUNNING"
     THEN /\ Commit(<<>>, TRUE) /\ SetWk("hdone") /\ Label("CompleteStageStillRunning")
          /\ UNCHANGED <<wf, st, tk, dlq, claims, ledger, gh, cnt>>
     ELSE IF ds = "FAILED_CONTINUE" /\ P.parent[s] # ""
     THEN \* synthetic child that failed-but-continues: its parent is completed directly; NO mark
          /\ st' = [Bump(st, s) EXCEPT ![s].status = ds] /\ tk' = Touch(tk, s)
          /\ Commit(<<CompleteStageM(P.parent[s])>>, FALSE)
          /\ SetWk("hdone") /\ Label("CompleteStageChildFailedContinue")
          /\ UNCHANGED <<wf, dlq, claims, ledger, gh, cnt>>
     ELSE IF ds \in {"SUCCEEDED", "FAILED_CONTINUE", "SKIPPED"} /\ OrSplit(s) /\ wk.out # "rec" /\ OrJoinsOf(s) # <<>>
     THEN \* _record_activated_branches: first OR-join (the rest follow, one commit each, before anything else)
          /\ RecordBranches(Head(OrJoinsOf(s)), s)
          /\ wk' = [wk EXCEPT !.out = "rec", !.sib = Tail(OrJoinsOf(s))]
          /\ Label("CompleteStageRecordBranches")
          /\ UNCHANGED <<wf, dlq, claims, ledger, gh, cnt>>
     ELSE IF ds \in {"SUCCEEDED", "FAILED_CONTINUE", "SKIPPED"} /\ wk.out = "rec" /\ wk.sib # <<>>
     THEN /\ RecordBranches(Head(wk.sib), s)
          /\ wk' = [wk EXCEPT !.sib = Tail(@)]
          /\ Label("CompleteStageRecordBranches")
          /\ UNCHANGED <<wf, dlq, claims, ledger, gh, cnt>>
     ELSE IF ds \in {"SUCCEEDED", "FAILED_CONTINUE", "SKIPPED"} /\ ToTrack(s) # {}
     THEN \* join tracking: one own-commit store_stage per first-of / quorum downstream
          LET d == CHOOSE x \in ToTrack(s) : \A y \in ToTrack(s) : IdxStage(x) <= IdxStage(y) IN
          /\ st' = [Bump(st, d) EXCEPT ![d].cb = @ \cup {s}]
          /\ tk' = Touch(tk, d)
          /\ NoQueueChange
          /\ Label("CompleteStageJoinTrack") /\ UNCHANGED wk
          /\ UNCHANGED <<wf, dlq, claims, ledger, gh, cnt>>
     ELSE IF ds \in {"SUCCEEDED", "FAILED_CONTINUE", "SKIPPED"}
     THEN /\ st' = [Bump(st, s) EXCEPT ![s].status = ds]
          /\ tk' = Touch(tk, s)
          /\ Commit(SplitContinuation(s), TRUE)
          /\ SetWk("hdone") /\ Label("CompleteStage")
          /\ UNCHANGED <<wf, dlq, claims, ledger, gh, cnt>>
     ELSE \* halting (or suspended / paused) status: cancel own remnants, finish the workflow / parent; NO mark
          /\ st' = [Bump(st, s) EXCEPT ![s].status = ds]
          /\ tk' = Touch(tk, s)
          /\ Commit(<<CancelStageM(s)>> \o HaltContinuation(s), FALSE)
          /\ SetWk("hdone") /\ Label("CompleteStageHalt")
          /\ UNCHANGED <<wf, dlq, claims, ledger, gh, cnt>>

CompleteStageAddAfter ==
  /\ wk.pc = "cs_after" /\ wk.kids # <<>>
  /\ LET c == Head(wk.kids) IN st' = AddRows(st, c) /\ tk' = AddTasks(tk, c)
  /\ NoQueueChange
  /\ wk' = [wk EXCEPT !.kids = Tail(@), !.pc = IF Len(wk.kids) = 1 THEN "handle" ELSE "cs_after"]
  /\ Label("CompleteStageAddAfter")
  /\ UNCHANGED <<wf, dlq, claims, ledger, gh, cnt>>

(* handlers/continue_parent_stage.py *)
ContinueParent ==
  /\ H("ContinueParentStage")
  /\ LET s == Cur.s ph == Cur.phase
         K == Kids(s, ph) \cap DOMAIN st
         anyHalt == \E c \in K : st[c].status \in Halt
         allDone == \A c \in K : st[c].status \in Continuable
         aftNS == {c \in First(s, "AFTER") \cap DOMAIN st : st[c].status = "NOT_STARTED"}
     IN
     IF anyHalt \/ (~allDone /\ Cur.rc >= MaxStageWait)
     THEN IF CanTransition(st[s].status, "TERMINAL")
          THEN /\ st' = [Bump(st, s) EXCEPT ![s].status = "TERMINAL"] /\ tk' = Touch(tk, s)
               /\ Commit(<<CompleteStageM(s)>>, TRUE)
               /\ SetWk("hdone") /\ Label("ContinueParentChildHalted")
               /\ UNCHANGED <<wf, dlq, claims, ledger, gh, cnt>>
          ELSE /\ SetWk("failed") /\ LabelN("ContinueParentIllegal")
               /\ UNCHANGED <<durable, ledger, gh, cnt>>
     ELSE IF ~allDone
     THEN /\ Commit(<<[ContinueParentM(s, ph) EXCEPT !.rc = Cur.rc + 1, !.delayed = TRUE]>>, FALSE)
          /\ SetWk("hdone") /\ Label("ContinueParentRequeue")
          /\ UNCHANGED <<wf, st, tk, dlq, claims, ledger, gh, cnt>>
     ELSE IF ph = "AFTER"
     THEN /\ Commit(<<CompleteStageM(s)>>, TRUE) /\ SetWk("hdone") /\ Label("ContinueParentAfterDone")
          /\ UNCHANGED <<wf, st, tk, dlq, claims, ledger, gh, cnt>>
     ELSE IF TasksOf(s) # <<>>
     THEN /\ Commit(<<StartTaskM(TasksOf(s)[1])>>, TRUE) /\ SetWk("hdone") /\ Label("ContinueParentStartTask")
          /\ UNCHANGED <<wf, st, tk, dlq, claims, ledger, gh, cnt>>
     ELSE IF First(s, "AFTER") \cap DOMAIN st # {}
     THEN IF aftNS # {}
          THEN /\ Commit(Map(StartStageM, InOrder(aftNS)), TRUE) /\ SetWk("hdone") /\ Label("ContinueParentStartAfter")
               /\ UNCHANGED <<wf, st, tk, dlq, claims, ledger, gh, cnt>>
          ELSE NoCommit("ContinueParentNothing")
     ELSE /\ Commit(<<CompleteStageM(s)>>, TRUE) /\ SetWk("hdone") /\ Label("ContinueParentComplete")
          /\ UNCHANGED <<wf, st, tk, dlq, claims, ledger, gh, cnt>>

(* handlers/skip_stage.py *)
SkipStage ==
  /\ H("SkipStage")
  /\ LET s == Cur.s IN
     IF st[s].status # "NOT_STARTED"
     THEN NoCommit("SkipStageIgnored")
     ELSE /\ st' = [Bump(st, s) EXCEPT ![s].status = "SKIPPED"]
          /\ tk' = Touch(tk, s)
          /\ Commit(Continuation(s), TRUE)
          /\ SetWk("hdone") /\ Label("SkipStage")
          /\ UNCHANGED <<wf, dlq, claims, ledger, gh, cnt>>

(* handlers/cancel_stage.py *)
CancelStage ==
  /\ H("CancelStage")
  /\ LET s == Cur.s IN
     IF st[s].status \in Complete
     THEN NoCommit("CancelStageIgnored")
     ELSE /\ st' = [Bump(st, s) EXCEPT ![s].status = "CANCELED"]
          /\ tk' = [t \in DOMAIN tk |->
                      IF StageOf(t) = s
                      THEN [tk[t] EXCEPT !.ver = @ + 1,
                                         !.status = IF @ \in {"NOT_STARTED", "RUNNING"} THEN "CANCELED" ELSE @]
                      ELSE tk[t]]
          /\ Commit(<<>>, TRUE)
          /\ SetWk("hdone") /\ Label("CancelStage")
          /\ UNCHANGED <<wf, dlq, claims, ledger, gh, cnt>>

(* handlers/complete_workflow.py *)
CompleteWorkflow ==
  /\ H("CompleteWorkflow")
  /\ LET f == FinalStatus(Cur.rc) IN
     IF wf.status \in Complete
     THEN NoCommit("CompleteWorkflowIgnored")
     ELSE IF f = "RETRY"
     THEN /\ Commit(<<CompleteWorkflowRC(Cur.rc + 1)>>, FALSE)
          /\ SetWk("hdone") /\ Label("CompleteWorkflowRequeue")
          /\ UNCHANGED <<wf, st, tk, dlq, claims, ledger, gh, cnt>>
     ELSE IF ~CanTransition(wf.status, f)
     THEN \* e.g. NOT_STARTED -> SUCCEEDED: set_workflow_status raises out of the handler
          /\ SetWk("failed") /\ LabelN("CompleteWorkflowIllegal")
          /\ UNCHANGED <<durable, ledger, gh, cnt>>
     ELSE /\ wf' = [wf EXCEPT !.status = f]
          /\ Commit(IF f = "SUCCEEDED" THEN <<>>
                    ELSE Map(CancelStageM, InOrder({s \in TopLevel : st[s].status = "RUNNING"})), TRUE)
          /\ SetWk("hdone") /\ Label("CompleteWorkflow")
          /\ UNCHANGED <<st, tk, dlq, claims, ledger, gh, cnt>>

(* handlers/workflow_control.py: CancelWorkflowHandler - flag commit, then one transaction *)
CancelWorkflowFlag ==
  /\ H("CancelWorkflow")
  /\ IF wf.status \in Complete
     THEN /\ Commit(<<>>, TRUE) /\ SetWk("hdone") /\ Label("CancelWorkflowIgnored")
          /\ UNCHANGED <<wf, st, tk, dlq, claims, ledger, gh, cnt>>
     ELSE /\ wf' = [wf EXCEPT !.canceled = TRUE]
          /\ NoQueueChange
          /\ gh' = IF wf.canceled THEN gh
                   ELSE [gh EXCEPT !.unfinishedAtCancel =
                           {s \in TopLevel : /\ s \in DOMAIN st /\ st[s].status \notin Complete
                                             /\ \E t \in LiveSet(s) : \/ tk[t].status = "NOT_STARTED"
                                                                      \/ (tk[t].status = "RUNNING" /\ t \notin gh.resulted)
                                             \* a stage one of whose tasks has ALREADY failed (status recorded, or its halting
                                             \* CompleteTask on the way) had in effect finished: it ends with that failure
                                             /\ ~\E t \in LiveSet(s) : tk[t].status \in {"TERMINAL", "STOPPED", "FAILED_CONTINUE"}
                                             /\ ~\E m \in q : m.typ = "CompleteTask" /\ m.s = s
                                                              /\ m.status \in {"TERMINAL", "STOPPED", "FAILED_CONTINUE"}}]
          /\ SetWk("cw_flagged") /\ Label("CancelWorkflowFlag")
          /\ UNCHANGED <<st, tk, dlq, claims, ledger, cnt>>

CancelWorkflowTxn ==
  /\ wk.pc = "cw_flagged"
  /\ Commit(Map(CancelStageM, InOrder({s \in TopLevel : s \in DOMAIN st /\ st[s].status \notin Complete}))
            \o <<CompleteWorkflowM>>, TRUE)
  /\ SetWk("hdone") /\ Label("CancelWorkflowTxn")
  /\ UNCHANGED <<wf, st, tk, dlq, claims, ledger, gh, cnt>>

(* handlers/cancel_region.py (WCP-25): one commit - processed mark + a CancelStage per stage of the region that is not
   complete; nothing is written when there is none.  It looks neither at the workflow's status nor at its cancel flag,
   and CancelStage pushes nothing: whoever else is still running has to bring the workflow to its end. *)
InRegion(r) == {s \in DOMAIN st : s \in TopLevel /\ P.region[s] = r /\ st[s].status \notin Complete}
CancelRegion ==
  /\ H("CancelRegion")
  /\ IF Cur.sig = "" \/ InRegion(Cur.sig) = {}
     THEN NoCommit("CancelRegionNone")
     ELSE /\ Commit(Map(CancelStageM, InOrder(InRegion(Cur.sig))), TRUE)
          /\ SetWk("hdone") /\ Label("CancelRegion")
          /\ UNCHANGED <<wf, st, tk, dlq, claims, ledger, gh, cnt>>

(* handlers/add_multi_instance.py (WCP-15): THREE commits - the parent's instance counter with the processed mark, the new
   instance's row (add_stage), its StartStage (queue.push).  The instance is a top-level stage whose only prerequisite
   is the multi-instance stage; P declares the instances that may come into being (P.instk = their number). *)
InstRef(s, k) == CHOOSE d \in Stages : P.instk[d] = k /\ P.req[d] = {s}
AddMultiInstance ==
  /\ H("AddMultiInstance")
  /\ LET s == Cur.s IN
     IF ~P.midyn[s] \/ st[s].status \in Complete
     THEN NoCommit("AddInstanceRefused")
     ELSE /\ st' = [Bump(st, s) EXCEPT ![s].mi = @ + 1] /\ tk' = Touch(tk, s)
          /\ Commit(<<>>, TRUE)
          /\ wk' = [wk EXCEPT !.pc = "mi_row", !.out = InstRef(s, st[s].mi + 1)] /\ Label("AddInstanceCount")
          /\ UNCHANGED <<wf, dlq, claims, ledger, gh, cnt>>
AddInstanceRow ==
  /\ wk.pc = "mi_row"
  /\ st' = AddRows(st, wk.out) /\ tk' = AddTasks(tk, wk.out)
  /\ NoQueueChange /\ SetWk("mi_push") /\ Label("AddInstanceRow")
  /\ UNCHANGED <<wf, dlq, claims, ledger, gh, cnt>>
AddInstancePush ==
  /\ wk.pc = "mi_push"
  /\ Commit(<<StartStageM(wk.out)>>, FALSE)
  /\ SetWk("hdone") /\ Label("AddInstancePush")
  /\ UNCHANGED <<wf, st, tk, dlq, claims, ledger, gh, cnt>>

(* handlers/jump_to_stage: traversal.py + reset.py + handler.py.  All mutations of one jump, the
   processed mark and the StartStage of the target are ONE transaction. *)
RECURSIVE Closure(_)
Closure(S) == LET N == {x \in Stages \ S : P.req[x] # {} /\ P.req[x] \subseteq S}
              IN IF N = {} THEN S ELSE Closure(S \cup N)
RECURSIVE DepClosure(_)
DepClosure(S) == LET N == {x \in Stages \ S : P.req[x] \cap S # {}}
                 IN IF N = {} THEN S ELSE DepClosure(S \cup N)
Resettable(t)  == Closure({t}) \ {t}          \* get_resettable_downstream_stages
Dependents(t)  == DepClosure({t}) \ {t}       \* get_downstream_stages (transitive)
SkippedBy(src, tgt) == (Closure({src}) \ {src}) \ ({tgt} \cup Dependents(tgt))   \* get_skipped_stages
ResetRow(r) == [r EXCEPT !.status = "NOT_STARTED", !.started = FALSE, !.fired = FALSE, !.cb = {},
                         !.act = {"-"}, !.ver = @ + 1]

JumpToStage ==
  /\ H("JumpToStage")
  /\ LET src == Cur.s tgt == Cur.target IN
     IF st[src].jumps >= P.maxJumps
     THEN \* budget spent: the source stage fails terminally
          /\ st' = [Bump(st, src) EXCEPT ![src].status = "TERMINAL"]
          /\ tk' = [t \in DOMAIN tk |->
                      IF StageOf(t) = src
                      THEN [tk[t] EXCEPT !.ver = @ + 1, !.status = IF @ = "RUNNING" THEN "TERMINAL" ELSE @]
                      ELSE tk[t]]
          /\ Commit(<<CompleteStageM(src)>>, TRUE)
          /\ SetWk("hdone") /\ Label("JumpExhausted")
          /\ UNCHANGED <<wf, dlq, claims, ledger, gh, cnt>>
     ELSE LET back == src = tgt \/ src \in Dependents(tgt)
              R    == Resettable(tgt) \ {src, tgt}
              Sk   == IF back THEN {} ELSE {x \in SkippedBy(src, tgt) : st[x].status = "NOT_STARTED"}
              nj   == st[src].jumps + 1
              Rearm0 == R \cup {tgt} \cup (IF back THEN {src} ELSE {})
              Rearm == Rearm0 \cup (UNION {Children(x) : x \in Rearm0} \cap DOMAIN st)   \* + their synthetic children
          IN
          /\ st' = [s \in DOMAIN st |->
                      IF s = tgt THEN [ResetRow(st[s]) EXCEPT !.bypass = TRUE, !.jumps = nj]
                      ELSE IF s = src
                           THEN (IF back THEN [ResetRow(st[s]) EXCEPT !.jumps = nj]
                                 ELSE [st[s] EXCEPT !.status = "SUCCEEDED", !.jumps = nj, !.ver = @ + 1])
                      ELSE IF s \in R \/ s \in Rearm THEN ResetRow(st[s])
                      ELSE IF s \in Sk THEN [st[s] EXCEPT !.status = "SKIPPED", !.ver = @ + 1]
                      ELSE st[s]]
          /\ tk' = [t \in DOMAIN tk |->
                      LET s == StageOf(t) IN
                      IF s \in Rearm THEN [tk[t] EXCEPT !.status = "NOT_STARTED", !.ver = @ + 1]
                      ELSE IF s = src THEN [tk[t] EXCEPT !.ver = @ + 1,
                                                         !.status = IF @ = "RUNNING" THEN "SUCCEEDED" ELSE @]
                      ELSE IF s \in Sk THEN [tk[t] EXCEPT !.status = "SKIPPED", !.ver = @ + 1]
                      ELSE tk[t]]
          /\ Commit(<<StartStageM(tgt)>>, TRUE)
          /\ gh' = [gh EXCEPT !.rearms = [x \in Stages |-> IF x \in Rearm THEN @[x] + 1 ELSE @[x]],
                              !.resulted = {t \in @ : StageOf(t) \notin Rearm}]
          /\ SetWk("hdone") /\ Label("JumpApply")
          /\ UNCHANGED <<wf, dlq, claims, ledger, cnt>>

(* handlers/signal_stage.py *)
SuspendedTask(s) == LET S == SelectSeq(LiveTasks(s), LAMBDA t : tk[t].status = "SUSPENDED") IN IF S = <<>> THEN "" ELSE S[1]
SignalStage ==
  /\ H("SignalStage")
  /\ LET s == Cur.s IN
     IF st[s].status = "SUSPENDED"
     THEN LET t == SuspendedTask(s) IN
          /\ st' = [Bump(st, s) EXCEPT ![s].status = "RUNNING", ![s].sig = Cur.sig]
          /\ tk' = [x \in DOMAIN tk |-> IF StageOf(x) = s
                                        THEN [tk[x] EXCEPT !.ver = @ + 1, !.status = IF x = t THEN "RUNNING" ELSE @]
                                        ELSE tk[x]]
          /\ Commit(IF t # "" THEN <<RunTaskM(t)>> ELSE <<StartStageM(s)>>, TRUE)
          /\ gh' = [gh EXCEPT !.resumes = @ + 1, !.consumed = @ + (IF Cur.pers THEN 1 ELSE 0),
                              !.consumedNames = IF Cur.pers THEN Append(@, Cur.sig) ELSE @]
          /\ SetWk("hdone") /\ Label("SignalDeliver")
          /\ UNCHANGED <<wf, dlq, claims, ledger, cnt>>
     ELSE IF Cur.pers
     THEN \* not suspended (yet): a persistent signal is buffered on the stage, under the version CAS
          /\ st' = [Bump(st, s) EXCEPT ![s].buf = Append(@, Cur.sig)]
          /\ tk' = Touch(tk, s)
          /\ Commit(<<>>, TRUE)
          /\ SetWk("hdone") /\ Label("SignalBuffer")
          /\ UNCHANGED <<wf, dlq, claims, ledger, gh, cnt>>
     ELSE /\ Commit(<<>>, TRUE) /\ SetWk("hdone") /\ Label("SignalDrop")
          /\ UNCHANGED <<wf, st, tk, dlq, claims, ledger, gh, cnt>>

(* handlers/workflow_control.py: PauseTask, ResumeStage, RestartStage *)
PauseTask ==
  /\ H("PauseTask")
  /\ LET t == Cur.t s == Cur.s IN
     IF tk[t].status \in Complete
     THEN /\ Commit(<<>>, TRUE) /\ SetWk("hdone") /\ Label("PauseTaskIgnored")
          /\ UNCHANGED <<wf, st, tk, dlq, claims, ledger, gh, cnt>>
     ELSE IF ~CanTransition(tk[t].status, "PAUSED") \/ ~CanTransition(st[s].status, "PAUSED")
     THEN /\ SetWk("failed") /\ LabelN("PauseTaskIllegal") /\ UNCHANGED <<durable, ledger, gh, cnt>>
     ELSE /\ st' = [Bump(st, s) EXCEPT ![s].status = "PAUSED"]
          /\ tk' = [Touch(tk, s) EXCEPT ![t].status = "PAUSED"]
          /\ Commit(<<>>, TRUE) /\ SetWk("hdone") /\ Label("PauseTask")
          /\ UNCHANGED <<wf, dlq, claims, ledger, gh, cnt>>

ResumeStage ==
  /\ H("ResumeStage")
  /\ LET s == Cur.s
         pt == SelectSeq(TasksOf(s), LAMBDA t : t \in DOMAIN tk /\ tk[t].status = "PAUSED")
     IN
     IF st[s].status # "PAUSED"
     THEN /\ Commit(<<>>, TRUE) /\ SetWk("hdone") /\ Label("ResumeStageIgnored")
          /\ UNCHANGED <<wf, st, tk, dlq, claims, ledger, gh, cnt>>
     ELSE /\ st' = [Bump(st, s) EXCEPT ![s].status = "RUNNING"]
          /\ tk' = [x \in DOMAIN tk |-> IF StageOf(x) = s
                                        THEN [tk[x] EXCEPT !.ver = @ + 1,
                                                           !.status = IF pt # <<>> /\ x = pt[1] THEN "RUNNING" ELSE @]
                                        ELSE tk[x]]
          /\ wf' = IF wf.status = "PAUSED" THEN [wf EXCEPT !.status = "RUNNING"] ELSE wf   \* only a PAUSED workflow is resumed
          /\ Commit(IF pt # <<>> THEN <<RunTaskM(pt[1])>> ELSE <<>>, TRUE)
          /\ SetWk("hdone") /\ Label("ResumeStage")
          /\ UNCHANGED <<dlq, claims, ledger, gh, cnt>>

RestartStage ==    \* operator restart: re-arms exactly this stage (reset_stage_for_retry) and re-opens a finished workflow
  /\ H("RestartStage")
  /\ LET s == Cur.s IN
     IF wf.canceled \/ st[s].status \notin Complete
     THEN /\ Commit(<<>>, TRUE) /\ SetWk("hdone") /\ Label("RestartStageIgnored")
          /\ UNCHANGED <<wf, st, tk, dlq, claims, ledger, gh, cnt>>
     ELSE /\ st' = [st EXCEPT ![s] = ResetRow(st[s])]
          /\ tk' = [x \in DOMAIN tk |-> IF StageOf(x) = s THEN [tk[x] EXCEPT !.status = "NOT_STARTED", !.ver = @ + 1] ELSE tk[x]]
          /\ wf' = IF wf.status \in Complete THEN [wf EXCEPT !.status = "RUNNING"] ELSE wf
          /\ Commit(<<StartStageM(s)>>, TRUE)
          /\ gh' = [gh EXCEPT !.rearms[s] = @ + 1, !.resulted = {t \in @ : StageOf(t) # s}]
          /\ SetWk("hdone") /\ Label("RestartStage")
          /\ UNCHANGED <<dlq, claims, ledger, cnt>>

Handlers ==
  \/ StartWorkflow \/ StartStage \/ StartStagePlan \/ StartTask
  \/ RunTaskGuard \/ RunTaskExec \/ RunTaskResult \/ CompleteTask
  \/ CompleteStage \/ SkipStage \/ CancelStage \/ CompleteWorkflow
  \/ CancelWorkflowFlag \/ CancelWorkflowTxn \/ JumpToStage \/ SignalStage
  \/ PauseTask \/ ResumeStage \/ RestartStage \/ CancelRegion
  \/ AddMultiInstance \/ AddInstanceRow \/ AddInstancePush
  \/ StartStageCancelSibling \/ StartStageAddChild \/ CompleteStageAddAfter \/ ContinueParent

-----------------------------------------------------------------------------
(* Environment *)
LockExpire(m) ==
  /\ m \in q /\ m.lock /\ (Idle \/ m.id # wk.mid) /\ EnvOK
  /\ q' = (q \ {m}) \cup {[m EXCEPT !.lock = FALSE]}
  /\ lbl' = [name |-> "LockExpire", mid |-> m.id, c |-> TRUE]
  /\ UNCHANGED <<wf, st, tk, dlq, done, claims, nextId, pushed, wk, ledger, gh, cnt>>

NothingVisible == ~\E m \in q : Visible(m)
TimePasses(m) ==
  \* Virtual time: a delay elapses only when there is nothing else to do, and no lock outlives the
  \* wait-retry budget (production: 60 s lock vs 240 x 15 s; the small MaxStageWait used for
  \* exploration stands for that budget, so a lapse of every lock comes first).
  \* Task back-off delays (a re-queued RunTask: ~1 s) are shorter than the handlers' wait-retry
  \* delay (15 s), so a waiting StartStage / CompleteWorkflow / rescheduled message wakes only when
  \* no delayed RunTask is pending.
  /\ m \in q /\ m.delayed /\ ~m.lock /\ Idle /\ NothingVisible /\ ~\E x \in q : x.lock
  \* (a RunTask the PROCESSOR rescheduled after a handler error - attempts > 0 - waits for the processor's retry delay,
  \*  which is of the order of the handlers' delay: no order is assumed between it and an older delayed message)
  /\ (m.typ # "RunTask" => ~\E x \in q : x.delayed /\ x.typ = "RunTask" /\ x.att = 0)
  /\ q' = (q \ {m}) \cup {[m EXCEPT !.delayed = FALSE]}
  /\ lbl' = [name |-> "TimePasses", mid |-> m.id, c |-> TRUE]
  /\ UNCHANGED <<wf, st, tk, dlq, done, claims, nextId, pushed, wk, ledger, gh, cnt>>

CrashWhen(allowIdle) ==   \* process kill: volatile state is lost, locks stay; a fresh worker recovers first
  /\ cnt.crashes < MaxCrashes /\ (allowIdle \/ ~Idle)
  /\ wk' = [pc |-> "idle", mid |-> NoMsg, out |-> "", sib |-> <<>>, kids |-> <<>>, seen |-> done, auth |-> TRUE]   \* fresh filter, hydrated at start
  /\ cnt' = [cnt EXCEPT !.crashes = @ + 1, !.needSweep = TRUE, !.sw = SwIdle]     \* the sweeping thread dies with the process
  /\ lbl' = [name |-> "Crash", mid |-> wk.mid, c |-> FALSE]
  /\ UNCHANGED <<durable, ledger, gh>>

Crash == CrashWhen(FALSE)

BloomReset ==   \* forced rotation of the in-memory filter without re-hydration: authority is revoked
  /\ Idle
  /\ wk' = [wk EXCEPT !.seen = {}, !.auth = FALSE]
  /\ lbl' = [name |-> "BloomReset", mid |-> NoMsg, c |-> FALSE]
  /\ UNCHANGED <<durable, ledger, gh, cnt>>

(* recovery.py:_recover_workflow.  The sweep reads the workflow with its stages and tasks (store.retrieve), then looks
   up the queue for messages of the tasks it is about to re-queue (has_pending_message_for_task), then pushes what it
   decided in ONE transaction.  The decision is a function of the rows it READ (R) and of the queue as it is when the
   look-ups run (Q) - written that way so that a sweep running concurrently with the handlers can be expressed. *)
Rows == [wf |-> wf, st |-> st, tk |-> tk]
PendingIn(Q, t) == \E m \in Q : m.t = t
CanStartOn(R, s) ==
  IF Upstream(s) = {} THEN TRUE
  ELSE IF JoinTracked(s) /\ R.st[s].fired THEN FALSE
  ELSE IF P.join[s] = "N_OF_M"
       THEN P.thr[s] <= Cardinality(Upstream(s))
            /\ Cardinality({u \in Upstream(s) : R.st[u].status \in Continuable}) >= P.thr[s]
       ELSE \A u \in Upstream(s) : R.st[u].status \in Continuable
BeforeKidsPendingOn(R, s) ==    \* the last before-child to complete starts the first task (ContinueParentStage)
  \E k \in DOMAIN R.st : P.parent[k] = s /\ P.owner[k] = "BEFORE" /\ R.st[k].status \notin Complete
RecForOn(R, Q, s) ==
  IF R.st[s].status = "RUNNING"
  THEN LET L  == SelectSeq(P.tasks[s], LAMBDA t : t \in DOMAIN R.tk)
           RR == SelectSeq(L, LAMBDA t : R.tk[t].status = "RUNNING")
           N  == SelectSeq(L, LAMBDA t : R.tk[t].status = "NOT_STARTED")
       IN IF RR # <<>> THEN Map(RunTaskM, SelectSeq(RR, LAMBDA t : ~PendingIn(Q, t)))
          ELSE IF N # <<>> /\ R.st[s].started
               THEN (IF BeforeKidsPendingOn(R, s) \/ PendingIn(Q, N[1]) THEN <<>> ELSE <<StartTaskM(N[1])>>)
          ELSE <<StartStageM(s)>>
  ELSE IF R.st[s].status = "NOT_STARTED" /\ (R.st[s].started \/ CanStartOn(R, s)) THEN <<StartStageM(s)>>
  ELSE <<>>
RECURSIVE Flatten(_)
Flatten(ss) == IF ss = <<>> THEN <<>> ELSE Head(ss) \o Flatten(Tail(ss))
RecMsgsOn(R, Q) ==
  IF R.wf.status \notin {"RUNNING", "NOT_STARTED"} THEN <<>>
  ELSE LET need == {s \in DOMAIN R.st : R.st[s].status = "RUNNING"
                                         \/ (R.st[s].status = "NOT_STARTED" /\ (R.st[s].started \/ CanStartOn(R, s)))}
           ex   == SelectSeq(P.stages, LAMBDA s : s \in DOMAIN R.st)
       IN IF R.wf.status = "NOT_STARTED"      \* nothing to resume: StartWorkflow starts it (fix: property=C01, known_findings.json)
          THEN <<StartWorkflowM>>
          ELSE IF need = {}
          THEN <<>>
          ELSE Flatten([i \in DOMAIN ex |-> RecForOn(R, Q, ex[i])])
PendingFor(t) == PendingIn(q, t)
HasStarted(s) == st[s].started
CanStart(s)   == CanStartOn(Rows, s)
RecMsgs       == RecMsgsOn(Rows, q)
Sweep ==        \* the whole sweep while nothing else runs
  /\ Idle /\ cnt.sw.phase = "idle" /\ (cnt.needSweep \/ cnt.sweeps < MaxSweeps)
  /\ Commit(RecMsgs, FALSE)
  /\ cnt' = [cnt EXCEPT !.needSweep = FALSE, !.sweeps = IF cnt.needSweep THEN @ ELSE @ + 1]
  /\ lbl' = [name |-> "Sweep", mid |-> NoMsg, c |-> TRUE]
  /\ UNCHANGED <<wf, st, tk, dlq, claims, wk, ledger, gh>>

(* The sweep CONCURRENT with the handlers (C10: "a sweep running concurrently with a handler"): its three phases as
   separate steps - read the rows, look up the queue, push - with handler steps in between.  cnt.sw is the sweeping
   thread's local state (it dies with the process). *)
SweepSnap ==
  /\ SplitSweep /\ EnvOK /\ cnt.sw.phase = "idle" /\ ~cnt.needSweep /\ cnt.sweeps < MaxSweeps
  /\ cnt' = [cnt EXCEPT !.sweeps = @ + 1, !.sw = [phase |-> "look", rows |-> Rows, msgs |-> <<>>]]
  /\ lbl' = [name |-> "SweepSnap", mid |-> NoMsg, c |-> FALSE]
  /\ UNCHANGED <<durable, wk, ledger, gh>>
SweepLook ==
  /\ EnvOK /\ cnt.sw.phase = "look"
  /\ cnt' = [cnt EXCEPT !.sw.phase = "push", !.sw.msgs = RecMsgsOn(cnt.sw.rows, q)]
  /\ lbl' = [name |-> "SweepLook", mid |-> NoMsg, c |-> FALSE]
  /\ UNCHANGED <<durable, wk, ledger, gh>>
SweepPush ==
  /\ EnvOK /\ cnt.sw.phase = "push"
  /\ Commit(cnt.sw.msgs, FALSE)
  /\ cnt' = [cnt EXCEPT !.sw = SwIdle]
  /\ lbl' = [name |-> "SweepPush", mid |-> NoMsg, c |-> TRUE]
  /\ UNCHANGED <<wf, st, tk, dlq, claims, wk, ledger, gh>>

DLQSweep ==   \* queue/sqlite/dlq.py:check_and_move_expired
  /\ Idle /\ \E m \in q : m.att >= MaxAttempts /\ ~m.lock
  /\ LET D == {m \in q : m.att >= MaxAttempts} IN
     /\ q' = q \ D
     /\ dlq' = dlq \cup {[id |-> m.id, att |-> m.att] : m \in D}
  /\ lbl' = [name |-> "DLQSweep", mid |-> NoMsg, c |-> TRUE]
  /\ UNCHANGED <<wf, st, tk, done, claims, nextId, pushed, wk, ledger, gh, cnt>>

SendCancel ==
  /\ EnvOK /\ cnt.cancels < MaxCancels
  /\ Commit(<<CancelWorkflowM>>, FALSE)
  /\ cnt' = [cnt EXCEPT !.cancels = @ + 1]
  /\ lbl' = [name |-> "SendCancel", mid |-> NoMsg, c |-> TRUE]
  /\ UNCHANGED <<wf, st, tk, dlq, claims, wk, ledger, gh>>

SendCancelRegion(r) ==   \* queue.push(CancelRegion(region = r))
  /\ EnvOK /\ cnt.regions < MaxRegions /\ r # ""
  /\ Commit(<<CancelRegionM(r)>>, FALSE)
  /\ cnt' = [cnt EXCEPT !.regions = @ + 1]
  /\ lbl' = [name |-> "SendCancelRegion", mid |-> <<"CancelRegion", r, "", 0>>, c |-> TRUE]
  /\ UNCHANGED <<wf, st, tk, dlq, claims, wk, ledger, gh>>

SendAddInstance(s) ==    \* queue.push(AddMultiInstance(stage_id = s))
  /\ EnvOK /\ cnt.adds < MaxAdds /\ s \in DOMAIN st /\ P.midyn[s]
  /\ Commit(<<AddInstanceM(s)>>, FALSE)
  /\ cnt' = [cnt EXCEPT !.adds = @ + 1]
  /\ lbl' = [name |-> "SendAddInstance", mid |-> <<"AddMultiInstance", s, "", 0>>, c |-> TRUE]
  /\ UNCHANGED <<wf, st, tk, dlq, claims, wk, ledger, gh>>

SendSignal(s, pers) ==
  /\ EnvOK /\ cnt.signals < MaxSignals /\ s \in DOMAIN st
  /\ Commit(<<SignalM(s, pers, cnt.signals + 1)>>, FALSE)
  /\ cnt' = [cnt EXCEPT !.signals = @ + 1]
  /\ gh' = [gh EXCEPT !.sent = @ + (IF pers THEN 1 ELSE 0)]
  /\ lbl' = [name |-> "SendSignal", mid |-> <<"SignalStage", s, IF pers THEN "persistent" ELSE "transient", 0>>, c |-> TRUE]
  /\ UNCHANGED <<wf, st, tk, dlq, claims, wk, ledger>>

PauseWorkflow ==    \* operator: store.pause() - a blind UPDATE of the workflow row
  /\ EnvOK /\ cnt.pauses < MaxPauses /\ wf.status = "RUNNING"
  /\ wf' = [wf EXCEPT !.status = "PAUSED"]
  /\ cnt' = [cnt EXCEPT !.pauses = @ + 1]
  /\ lbl' = [name |-> "PauseWorkflow", mid |-> NoMsg, c |-> TRUE]
  /\ UNCHANGED <<st, tk, q, dlq, done, claims, nextId, pushed, wk, ledger, gh>>

Unpause ==          \* Orchestrator.unpause(): one ResumeStage per PAUSED stage, in one transaction
  /\ EnvOK       \* (no stage PAUSED: nothing is pushed and the workflow row is not touched - it stays PAUSED)
  /\ cnt.unpauses < 2 * MaxPauses
  /\ Commit(Map(ResumeStageM, InOrder({s \in DOMAIN st : st[s].status = "PAUSED"})), FALSE)
  /\ cnt' = [cnt EXCEPT !.unpauses = @ + 1]
  /\ lbl' = [name |-> "Unpause", mid |-> NoMsg, c |-> TRUE]
  /\ UNCHANGED <<wf, st, tk, dlq, claims, wk, ledger, gh>>

SendRestart(s) ==   \* Orchestrator.restart()
  /\ EnvOK /\ cnt.restarts < MaxRestarts /\ s \in DOMAIN st      \* (at any time: the handler refuses a stage that is not complete)
  /\ Commit(<<RestartStageM(s)>>, FALSE)
  /\ cnt' = [cnt EXCEPT !.restarts = @ + 1]
  /\ lbl' = [name |-> "SendRestart", mid |-> <<"RestartStage", s, "", 0>>, c |-> TRUE]
  /\ UNCHANGED <<wf, st, tk, dlq, claims, wk, ledger, gh>>

ClaimSweep ==   \* retention sweep: persistence/sqlite/operations.py:cleanup_completed_stage_claims
  /\ Idle
  /\ claims' = IF wf.status \in Complete THEN <<>> ELSE claims    \* claims of live executions are never swept
  /\ lbl' = [name |-> "ClaimSweep", mid |-> NoMsg, c |-> TRUE]
  /\ UNCHANGED <<wf, st, tk, q, dlq, done, nextId, pushed, wk, ledger, gh, cnt>>

EarlyStart(s) ==    \* a StartStage for an arbitrary stage at an arbitrary moment
  /\ Idle /\ cnt.early < MaxEarly /\ s \in TopLevel /\ wf.status = "RUNNING"
  /\ Commit(<<StartStageM(s)>>, FALSE)
  /\ cnt' = [cnt EXCEPT !.early = @ + 1]
  /\ lbl' = [name |-> "EarlyStart", mid |-> <<"StartStage", s, "", 0>>, c |-> TRUE]
  /\ UNCHANGED <<wf, st, tk, dlq, claims, wk, ledger, gh>>

Environment ==
  \/ \E m \in q : LockExpire(m) \/ TimePasses(m)
  \/ Crash \/ Sweep \/ SweepSnap \/ SweepLook \/ SweepPush \/ DLQSweep \/ SendCancel \/ ClaimSweep
  \/ \E s \in Stages : EarlyStart(s)
  \/ \E s \in SignalTargets, pers \in BOOLEAN : SendSignal(s, pers)
  \/ PauseWorkflow \/ Unpause \/ (\E s \in TopLevel : SendRestart(s))
  \/ \E r \in {P.region[s] : s \in Stages} : SendCancelRegion(r)
  \/ \E s \in Stages : SendAddInstance(s)

Processor == (\E m \in q : Poll(m)) \/ Dedup \/ DedupTrusted \/ DedupFault \/ HRet \/ PostMark \/ Ack \/ Withhold \/ HRaise \/ Reschedule

Next == Processor \/ Handlers \/ Environment
Spec == Init /\ [][Next]_vars

-----------------------------------------------------------------------------
Quiescent == q = {} /\ Idle /\ ~cnt.needSweep /\ cnt.sw.phase = "idle"
=============================================================================
