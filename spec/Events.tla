------------------------------- MODULE Events -------------------------------
(***************************************************************************)
(* C12 / C13 (DESIGN.md 3.5): the COUPLING between durable state changes   *)
(* and the event log of stabilize, at commit grain.                        *)
(*                                                                         *)
(* Read off handlers/*.py, events/recorder/base.py (_record),              *)
(* events/txn_scope.py, persistence/sqlite/store/store.py (transaction),   *)
(* events/replay.py (_apply_event) and events/snapshots.py.                *)
(*                                                                         *)
(* Durable:  status (workflow "wf", stages, tasks), ev (the events table). *)
(* Volatile (lost by Crash), per worker:                                   *)
(*   cur   the handler being executed: kind h, entity e, message status    *)
(*         arg, program counter pc, the out-of-transaction recordings it   *)
(*         still owes after its state commit (owes), whether one of its    *)
(*         transactions was rolled back (rb)                               *)
(*   tx    the open store transaction: the events appended inside it       *)
(*         (TxnScope.connection joined by EventRecorderBase._record)       *)
(*   pend  deferred bus publications (TxnScope.pending; for an append made *)
(*         outside a transaction: the event between its own commit and     *)
(*         bus.publish)                                                    *)
(* History:  bus (the log of a synchronous subscriber), wr (which step     *)
(*   wrote the current status of an entity), done (how often each status   *)
(*   was durably written, in total and by the completion steps), cnt, act. *)
(*                                                                         *)
(* One action per kind of commit the engine performs.  Which recordings    *)
(* are inside the state transaction and which are commits of their own:    *)
(*   StartWorkflow    T[wf RUNNING, mark] ; workflow.created ; .started    *)
(*   StartStage       T1[stage RUNNING] ; .. ; T2[plan, mark] ; stage.started *)
(*   StartTask        T[task RUNNING, mark] ; task.started                 *)
(*   CompleteTask     T[task status + task.completed|failed, mark]         *)
(*   CompleteStage    T[stage status + stage.completed|failed|skipped, (mark)] *)
(*   SkipStage        stage.skipped ; T[stage SKIPPED, mark]      (BEFORE) *)
(*   CancelStage      T[stage + open tasks CANCELED, mark] ; stage.canceled *)
(*   CompleteWorkflow workflow.completed|failed|canceled ; T[wf status, mark] (BEFORE) *)
(*   JumpToStage, StartStage give-up, ...  force-mark statuses, no events  *)
(*                                                                         *)
(* Deliberate deviations (named):                                          *)
(*   - the queue is not modelled: the environment may start any handler    *)
(*     whose guard holds (MC_Events), i.e. any delivery order and any      *)
(*     redelivery after a crash; Trace_Events takes the handler entries    *)
(*     from the recorded execution instead;                                *)
(*   - status writes of an open transaction are not visible before its     *)
(*     commit (they are parameters of the commit action); event appends    *)
(*     inside a transaction ARE steps of their own (AppendInTxn) because   *)
(*     that is the mechanism C13 is about;                                 *)
(*   - SQLite allows one write transaction at a time: a transaction of one *)
(*     worker excludes commits of the others (WriterFree).                 *)
(***************************************************************************)
EXTENDS Naturals, Sequences, FiniteSets, TLC

CONSTANTS
  Workers,                        \* worker ids
  MaxCrashes, MaxRollbacks,       \* exploration bounds (MC only)
  MaxForce, MaxCancels, MaxSkips,
  TaskOutcomes,                   \* statuses a CompleteTask message may carry (MC only)
  Defect_SkipEventBeforeCommit,   \* TRUE = as the code: SkipStage records stage.skipped in its own commit BEFORE its transaction
  Defect_ErrorPathNoEvent,        \* TRUE = as the code: CompleteStage's `except Exception` path stores TERMINAL without an event
  Defect_NoTaskCancelEvent        \* TRUE = as the code: CancelStage cancels the open tasks without any task event

VARIABLES prog, status, ev, cur, tx, pend, bus, wr, done, cnt, act
durable  == <<status, ev>>
volatile == <<cur, tx, pend>>
vars     == <<prog, status, ev, cur, tx, pend, bus, wr, done, cnt, act>>

-----------------------------------------------------------------------------
(* vocabulary *)
AllSt == {"NOT_STARTED", "RUNNING", "SUCCEEDED", "FAILED_CONTINUE", "TERMINAL", "CANCELED", "STOPPED",
          "SKIPPED", "REDIRECT", "SUSPENDED", "PAUSED", "BUFFERED"}
CompleteSt    == {"SUCCEEDED", "FAILED_CONTINUE", "TERMINAL", "CANCELED", "STOPPED", "SKIPPED"}   \* WorkflowStatus.is_complete
FailureSt     == {"TERMINAL", "STOPPED", "FAILED_CONTINUE"}                                     \* is_failure
ContinuableSt == {"SUCCEEDED", "FAILED_CONTINUE", "SKIPPED", "REDIRECT"}                        \* CONTINUABLE_STATUSES

WfTypes    == {"workflow.created", "workflow.started", "workflow.completed", "workflow.failed",
               "workflow.canceled", "workflow.paused", "workflow.resumed"}
StageTypes == {"stage.started", "stage.completed", "stage.failed", "stage.skipped", "stage.canceled"}
TaskTypes  == {"task.started", "task.completed", "task.failed", "task.retried"}
CompletionTypes == {"task.completed", "task.failed", "stage.completed", "stage.failed"}

Stages  == prog.stages
Tasks   == prog.tasks
Ents    == {"wf"} \cup Stages \cup Tasks
StageOf(t)  == prog.stageOf[t]
TasksOf(s)  == {t \in Tasks : prog.stageOf[t] = s}

E(typ, ent, st) == [seq |-> 0, typ |-> typ, ent |-> ent, st |-> st]
Stamp(e, n)     == [e EXCEPT !.seq = n]
SameEvent(a, b) == a.typ = b.typ /\ a.ent = b.ent /\ a.st = b.st      \* modulo the sequence number
LastSeq(es)     == IF es = <<>> THEN 0 ELSE es[Len(es)].seq
Range(f)        == {f[i] : i \in DOMAIN f}

IdleCur  == [h |-> "", e |-> "", arg |-> "", pc |-> "", owes |-> <<>>, rb |-> FALSE]
NoTx     == [open |-> FALSE, evs |-> <<>>]
Idle(w)  == cur[w].h = ""
AllIdle  == \A w \in Workers : Idle(w) /\ pend[w] = <<>> /\ ~tx[w].open
WriterFree(w) == \A v \in Workers \ {w} : ~tx[v].open        \* SQLite: one write transaction at a time
(* AUTOINCREMENT: the next sequence number is one more than the last one handed out that is still
   alive - appends of a rolled-back (or killed) transaction give their numbers back *)
NextSeq(w) == LastSeq(ev) + Len(tx[w].evs) + 1

Label(n, w, mk) == [n |-> n, w |-> w, mark |-> mk]

-----------------------------------------------------------------------------
(* the decision functions the handlers use *)

(* StageExecution.determine_status / failure_status for a stage without synthetic children *)
FailureStatus(s) == IF s \in prog.cof THEN "FAILED_CONTINUE" ELSE IF s \in prog.nofailp THEN "STOPPED" ELSE "TERMINAL"
DetermineStatus(s) ==
  LET ts == {status[t] : t \in TasksOf(s)} IN
  IF ts = {} THEN (IF status[s] = "RUNNING" THEN "SUCCEEDED" ELSE "NOT_STARTED")
  ELSE IF "TERMINAL" \in ts THEN FailureStatus(s)
  ELSE IF "STOPPED" \in ts THEN "STOPPED"
  ELSE IF "CANCELED" \in ts THEN "CANCELED"
  ELSE IF ts \cap {"PAUSED", "BUFFERED", "SUSPENDED"} # {} THEN "SUSPENDED"
  ELSE IF ts \cap {"NOT_STARTED", "RUNNING"} # {} THEN "RUNNING"
  ELSE IF ~(ts \subseteq {"SUCCEEDED", "SKIPPED", "FAILED_CONTINUE"}) THEN "RUNNING"
  ELSE IF "FAILED_CONTINUE" \in ts THEN "FAILED_CONTINUE" ELSE "SUCCEEDED"

(* CompleteWorkflowHandler._determine_final_status.  The STOPPED rule needs the DAG
   (other branches incomplete?) and an override flag: both outcomes are admitted.  TERMINAL is always
   admitted: the handler gives up with it after max_stage_wait_retries re-queues. *)
FinalCandidates ==
  LET ss == {status[s] : s \in prog.top} IN
  IF ss \subseteq ContinuableSt THEN {"SUCCEEDED"}
  ELSE IF "TERMINAL" \in ss THEN {"TERMINAL"}
  ELSE IF "CANCELED" \in ss THEN {"CANCELED"}
  ELSE IF "STOPPED" \in ss THEN {"SUCCEEDED", "TERMINAL"}
  ELSE {"TERMINAL"}
FinalDetermined ==
  LET ss == {status[s] : s \in prog.top} IN
  ss \subseteq ContinuableSt \/ ss \cap {"TERMINAL", "CANCELED", "STOPPED"} # {}

(* the event a completion step records for (entity, new status) *)
TaskCompletionEvent(t, s) ==
  IF s \in FailureSt THEN <<E("task.failed", t, s)>>
  ELSE IF s = "SKIPPED" THEN <<>>                               \* by design: "Skipped tasks don't need completion events"
  ELSE <<E("task.completed", t, s)>>
StageCompletionEvent(s, st) ==
  IF st \in FailureSt THEN <<E("stage.failed", s, st)>>
  ELSE IF st = "SKIPPED" THEN <<E("stage.skipped", s, "")>>
  ELSE <<E("stage.completed", s, st)>>
WorkflowEndEvent(st) ==
  IF st = "SUCCEEDED" THEN E("workflow.completed", "wf", st)
  ELSE IF st = "CANCELED" THEN E("workflow.canceled", "wf", "")
  ELSE E("workflow.failed", "wf", st)

-----------------------------------------------------------------------------
(* history bookkeeping *)
(* bags of <<entity, status>> pairs as functions with a growing domain *)
Cnt(d, k) == IF k \in DOMAIN d THEN d[k] ELSE 0
Bump(d, pairs) == [k \in DOMAIN d \cup pairs |-> Cnt(d, k) + (IF k \in pairs THEN 1 ELSE 0)]
CompletionSteps == {"CompleteTask", "CompleteStage", "CompleteStageError"}
(* f: function from some entities to their new status, who: the step that writes *)
Write(f, who) ==
  /\ status' = [e \in DOMAIN status |-> IF e \in DOMAIN f THEN f[e] ELSE status[e]]
  /\ wr' = [e \in DOMAIN wr |-> IF e \in DOMAIN f THEN who ELSE wr[e]]
  /\ done' = [all  |-> Bump(done.all, {<<e, f[e]>> : e \in DOMAIN f}),
              step |-> IF who \in CompletionSteps
                       THEN Bump(done.step, {<<e, f[e]>> : e \in {x \in DOMAIN f : ~(x \in Tasks /\ f[x] = "SKIPPED")}})
                       ELSE done.step]
NoWrite == UNCHANGED <<status, wr, done>>

SetCur(w, c) == cur' = [cur EXCEPT ![w] = c]

InitWith(p) ==
  /\ prog = p
  /\ status = [e \in {"wf"} \cup p.stages \cup p.tasks |-> "NOT_STARTED"]
  /\ ev = <<>>
  /\ cur = [w \in Workers |-> IdleCur]
  /\ tx = [w \in Workers |-> NoTx]
  /\ pend = [w \in Workers |-> <<>>]
  /\ bus = <<>>
  /\ wr = [e \in {"wf"} \cup p.stages \cup p.tasks |-> "init"]
  /\ done = [all |-> <<>>, step |-> <<>>]
  /\ cnt = [crashes |-> 0, rollbacks |-> 0, force |-> 0, cancels |-> 0, skips |-> 0]
  /\ act = Label("Init", "", FALSE)

-----------------------------------------------------------------------------
(* handler entry / exit (volatile only) *)

Begin(w, h, e, a) ==          \* QueueProcessor._handle_message -> handler.handle(message)
  /\ Idle(w) /\ pend[w] = <<>> /\ ~tx[w].open
  /\ SetCur(w, [h |-> h, e |-> e, arg |-> a, pc |-> "run", owes |-> <<>>, rb |-> FALSE])
  /\ act' = Label("Begin", w, FALSE)
  /\ UNCHANGED <<prog, status, ev, tx, pend, bus, wr, done, cnt>>

Return(w) ==                  \* the handler returned normally: nothing owed, nothing unpublished, no open transaction
  /\ ~Idle(w) /\ cur[w].owes = <<>> /\ pend[w] = <<>> /\ ~tx[w].open
  /\ cur[w].pc \in {"run", "post", "done"}   \* never between a BEFORE-recording and its state commit, nor between
                                             \* claim and plan (that needs a concurrent writer: ConcurrencyError, Raise)
  /\ SetCur(w, IdleCur)
  /\ act' = Label("Return", w, FALSE)
  /\ UNCHANGED <<prog, status, ev, tx, pend, bus, wr, done, cnt>>

Raise(w) ==                   \* the handler raised: its transaction (if any) was rolled back on the way out
  /\ ~Idle(w) /\ ~tx[w].open /\ pend[w] = <<>>
  /\ SetCur(w, IdleCur)
  /\ act' = Label("Raise", w, FALSE)
  /\ UNCHANGED <<prog, status, ev, tx, pend, bus, wr, done, cnt>>

-----------------------------------------------------------------------------
(* commits without an event inside *)

OtherCommit(w, mk) ==         \* poll, ack, post-mark, queue pushes, context updates, join tracking: no abstract effect
  /\ ~tx[w].open /\ WriterFree(w)
  /\ ~(cur[w].h = "StartStage" /\ cur[w].pc = "claimed" /\ mk)       \* that one is StartStagePlan
  /\ act' = Label("OtherCommit", w, mk)
  /\ UNCHANGED <<prog, status, ev, cur, tx, pend, bus, wr, done, cnt>>

StartWorkflowCommit(w) ==     \* T[wf RUNNING, mark, StartStage x initial]; the two events follow in their own commits
  /\ cur[w].h = "StartWorkflow" /\ cur[w].pc = "run" /\ ~tx[w].open /\ WriterFree(w)
  /\ status["wf"] = "NOT_STARTED"
  /\ Write([e \in {"wf"} |-> "RUNNING"], "StartWorkflow")
  /\ SetCur(w, [cur[w] EXCEPT !.pc = "post",
                              !.owes = <<E("workflow.created", "wf", ""), E("workflow.started", "wf", "")>>])
  /\ act' = Label("StartWorkflowCommit", w, TRUE)
  /\ UNCHANGED <<prog, ev, tx, pend, bus, cnt>>

StartStageClaim(w) ==         \* T1[stage NOT_STARTED -> RUNNING under version + status CAS]; no mark yet
  /\ cur[w].h = "StartStage" /\ cur[w].pc = "run" /\ ~tx[w].open /\ WriterFree(w)
  /\ cur[w].e \in Stages /\ status[cur[w].e] = "NOT_STARTED"
  /\ Write([e \in {cur[w].e} |-> "RUNNING"], "StartStage")
  /\ SetCur(w, [cur[w] EXCEPT !.pc = "claimed"])
  /\ act' = Label("StartStageClaim", w, FALSE)
  /\ UNCHANGED <<prog, ev, tx, pend, bus, cnt>>

StartStageReplan(w) ==        \* zombie (RUNNING, no tasks, no children): the claim CAS expects RUNNING, status unchanged
  /\ cur[w].h = "StartStage" /\ cur[w].pc = "run" /\ ~tx[w].open /\ WriterFree(w)
  /\ cur[w].e \in Stages /\ status[cur[w].e] = "RUNNING" /\ TasksOf(cur[w].e) = {}
  /\ SetCur(w, [cur[w] EXCEPT !.pc = "claimed"])
  /\ act' = Label("StartStageReplan", w, FALSE)
  /\ UNCHANGED <<prog, status, ev, tx, pend, bus, wr, done, cnt>>

StartStagePlan(w) ==          \* T2[planned context + tasks, mark, StartTask | ...]; stage.started is recorded AFTER it
  /\ cur[w].h = "StartStage" /\ cur[w].pc = "claimed" /\ ~tx[w].open /\ WriterFree(w)
  /\ SetCur(w, [cur[w] EXCEPT !.pc = "post", !.owes = <<E("stage.started", cur[w].e, "")>>])
  /\ act' = Label("StartStagePlan", w, TRUE)
  /\ UNCHANGED <<prog, status, ev, tx, pend, bus, wr, done, cnt>>

StartTaskCommit(w) ==         \* T[task NOT_STARTED -> RUNNING, mark, RunTask]; task.started AFTER it
  /\ cur[w].h = "StartTask" /\ cur[w].pc = "run" /\ ~tx[w].open /\ WriterFree(w)
  /\ cur[w].e \in Tasks /\ status[cur[w].e] = "NOT_STARTED"
  /\ Write([e \in {cur[w].e} |-> "RUNNING"], "StartTask")
  /\ SetCur(w, [cur[w] EXCEPT !.pc = "post", !.owes = <<E("task.started", cur[w].e, "")>>])
  /\ act' = Label("StartTaskCommit", w, TRUE)
  /\ UNCHANGED <<prog, ev, tx, pend, bus, cnt>>

CancelTargets(s) == {s} \cup {t \in TasksOf(s) : status[t] \in {"NOT_STARTED", "RUNNING"}}
SeqOfTasks(S) == SelectSeq(prog.taskSeq, LAMBDA t : t \in S)
CanceledTaskSeq(s) == SeqOfTasks(CancelTargets(s) \ {s})
CancelStageCommit(w) ==       \* T[open tasks + stage CANCELED, mark]; stage.canceled AFTER it; as the code: no task event at all
  /\ cur[w].h = "CancelStage" /\ cur[w].pc \in {"run", "appended"} /\ WriterFree(w)
  /\ cur[w].e \in Stages /\ status[cur[w].e] \notin CompleteSt
  /\ IF Defect_NoTaskCancelEvent THEN ~tx[w].open      \* repaired: one task.completed(CANCELED) per cancelled task inside T
                                  ELSE Len(tx[w].evs) = Len(CanceledTaskSeq(cur[w].e))
  /\ Write([e \in CancelTargets(cur[w].e) |-> "CANCELED"], "CancelStage")
  /\ ev' = ev \o tx[w].evs /\ tx' = [tx EXCEPT ![w] = [open |-> FALSE, evs |-> <<>>]]
  /\ SetCur(w, [cur[w] EXCEPT !.pc = "post", !.owes = <<E("stage.canceled", cur[w].e, "")>>])
  /\ act' = Label("CancelStageCommit", w, TRUE)
  /\ UNCHANGED <<prog, pend, bus, cnt>>

(* steps that set statuses without recording anything: JumpToStage (re-arm / skip / source), the
   StartStage give-up after max_stage_wait_retries, RunTask SUSPENDED and SignalStage resume,
   ContinueParentStage TERMINAL.  f = the new statuses.  C12 excludes what they write. *)
ForceHandlers == {"JumpToStage", "StartStage", "RunTask", "SignalStage", "ContinueParentStage", "StartWorkflow",
                  "CancelWorkflow", "CancelRegion", "AddMultiInstance", "RestartStage", "ResumeStage", "PauseTask"}
ForceCommit(w, f, mk) ==
  /\ cur[w].h \in ForceHandlers /\ cur[w].pc = "run" /\ ~tx[w].open /\ WriterFree(w)
  /\ DOMAIN f # {} /\ DOMAIN f \subseteq Ents /\ \E e \in DOMAIN f : f[e] # status[e]
  /\ cur[w].h = "StartStage" => (DOMAIN f = {cur[w].e} /\ f[cur[w].e] = "TERMINAL")
  /\ Write(f, "force")
  /\ SetCur(w, [cur[w] EXCEPT !.pc = "done"])
  /\ cnt' = [cnt EXCEPT !.force = @ + 1]
  /\ act' = Label("ForceCommit", w, mk)
  /\ UNCHANGED <<prog, ev, tx, pend, bus>>

-----------------------------------------------------------------------------
(* event appends *)

(* The events the running handler may append INSIDE its store transaction (joins TxnScope.connection,
   publication deferred to TxnScope.pending) - {} if it appends none *)
InTxnEvents(w) ==
  LET c == cur[w] IN
  IF c.h = "CompleteTask" /\ c.e \in Tasks /\ status[c.e] = "RUNNING" /\ tx[w].evs = <<>>
     THEN Range(TaskCompletionEvent(c.e, c.arg))
  ELSE IF c.h = "CompleteStage" /\ c.e \in Stages /\ status[c.e] = "RUNNING" /\ tx[w].evs = <<>>
          THEN Range(StageCompletionEvent(c.e, DetermineStatus(c.e)))
               \cup (IF c.rb /\ ~Defect_ErrorPathNoEvent THEN Range(StageCompletionEvent(c.e, "TERMINAL")) ELSE {})
  ELSE IF c.h = "SkipStage" /\ ~Defect_SkipEventBeforeCommit /\ c.e \in Stages /\ status[c.e] = "NOT_STARTED"
          /\ tx[w].evs = <<>>
          THEN {E("stage.skipped", c.e, "")}
  ELSE IF c.h = "CancelStage" /\ ~Defect_NoTaskCancelEvent /\ c.e \in Stages /\ status[c.e] \notin CompleteSt
          /\ Len(tx[w].evs) < Len(CanceledTaskSeq(c.e))
          THEN {E("task.completed", CanceledTaskSeq(c.e)[Len(tx[w].evs) + 1], "CANCELED")}
  ELSE {}

AppendInTxn(w, e0) ==         \* EventRecorderBase._record with a scope: INSERT on the transaction's connection
  /\ ~Idle(w) /\ cur[w].pc \in {"run", "appended"} /\ WriterFree(w)
  /\ e0 \in InTxnEvents(w)
  /\ LET e == Stamp(e0, NextSeq(w)) IN
       /\ tx' = [tx EXCEPT ![w] = [open |-> TRUE, evs |-> Append(@.evs, e)]]
       /\ pend' = [pend EXCEPT ![w] = Append(@, e)]
  /\ SetCur(w, [cur[w] EXCEPT !.pc = "appended"])
  /\ act' = Label("AppendInTxn", w, FALSE)
  /\ UNCHANGED <<prog, status, ev, bus, wr, done, cnt>>

(* The event the running handler may record next in a commit of its OWN (no scope: append + commit,
   then bus.publish) - either owed after its state commit or recorded BEFORE it *)
OwnEvent(w) ==
  LET c == cur[w] IN
  IF c.owes # <<>> THEN {c.owes[1]}
  ELSE IF c.h = "SkipStage" /\ c.pc = "run" /\ Defect_SkipEventBeforeCommit /\ c.e \in Stages /\ status[c.e] = "NOT_STARTED"
          THEN {E("stage.skipped", c.e, "")}
  ELSE IF c.h = "CompleteWorkflow" /\ c.pc = "run" /\ status["wf"] \notin CompleteSt
          THEN {WorkflowEndEvent(s) : s \in FinalCandidates}
  ELSE {}

RecordOwn(w, e0) ==           \* e0 \in OwnEvent(w); durable at once; the state commit it belongs to is a different commit
  /\ ~Idle(w) /\ ~tx[w].open /\ pend[w] = <<>> /\ WriterFree(w)
  /\ e0 \in OwnEvent(w)
  /\ LET e == Stamp(e0, NextSeq(w)) IN
       /\ ev' = Append(ev, e)
       /\ pend' = [pend EXCEPT ![w] = <<e>>]
  /\ SetCur(w, IF cur[w].owes # <<>> THEN [cur[w] EXCEPT !.owes = Tail(@)]
               ELSE [cur[w] EXCEPT !.pc = "pre",
                                   !.arg = IF cur[w].h = "CompleteWorkflow"
                                           THEN (IF e0.typ = "workflow.canceled" THEN "CANCELED" ELSE e0.st) ELSE @])
  /\ act' = Label("RecordOwn", w, FALSE)
  /\ UNCHANGED <<prog, status, tx, bus, wr, done, cnt>>

(* A synchronous subscriber that REACTS to a delivery by recording a follow-up event through the same
   recorder (an audit trail): prog.audit = the event types it reacts to ({} in most programs).  The delivery
   happens after the transaction is over, so the follow-up is recorded in a commit of its own and published
   right after it, before the rest of the deferred publications.  An entry of pend with seq = 0 is a follow-up
   the subscriber has yet to record. *)
AuditTypes == IF "audit" \in DOMAIN prog THEN prog.audit ELSE {}
FollowUp(e) == IF e.typ \in AuditTypes THEN <<E("status.changed", e.ent, "")>> ELSE <<>>

Publish(w) ==                 \* commit_store_transaction / the tail of _record: only after the commit
  /\ ~tx[w].open /\ pend[w] # <<>> /\ pend[w][1].seq > 0
  /\ bus' = Append(bus, pend[w][1])
  /\ pend' = [pend EXCEPT ![w] = FollowUp(pend[w][1]) \o Tail(@)]
  /\ act' = Label("Publish", w, FALSE)
  /\ UNCHANGED <<prog, status, ev, cur, tx, wr, done, cnt>>

AuditRecord(w) ==             \* the reacting subscriber: recorder._record without a scope = append + commit, then publish
  /\ ~tx[w].open /\ pend[w] # <<>> /\ pend[w][1].seq = 0 /\ WriterFree(w)
  /\ LET e == Stamp(pend[w][1], NextSeq(w)) IN
       /\ ev' = Append(ev, e)
       /\ pend' = [pend EXCEPT ![w] = <<e>> \o Tail(@)]
  /\ act' = Label("AuditRecord", w, FALSE)
  /\ UNCHANGED <<prog, status, cur, tx, bus, wr, done, cnt>>

-----------------------------------------------------------------------------
(* commits of the transactions that carry an event *)

Durably(w) == ev' = ev \o tx[w].evs /\ tx' = [tx EXCEPT ![w] = NoTx]

CompleteTaskCommit(w) ==      \* T[task status + its event + mark + StartTask(next) | CompleteStage]
  /\ cur[w].h = "CompleteTask" /\ cur[w].e \in Tasks /\ status[cur[w].e] = "RUNNING" /\ WriterFree(w)
  /\ \/ cur[w].pc = "appended" /\ tx[w].evs # <<>>
     \/ cur[w].pc = "run" /\ tx[w].evs = <<>> /\ TaskCompletionEvent(cur[w].e, cur[w].arg) = <<>>
  /\ Write([e \in {cur[w].e} |-> cur[w].arg], "CompleteTask")
  /\ Durably(w)
  /\ SetCur(w, [cur[w] EXCEPT !.pc = "done"])
  /\ act' = Label("CompleteTaskCommit", w, TRUE)
  /\ UNCHANGED <<prog, pend, bus, cnt>>

CompleteStageCommit(w) ==     \* T[stage status + its event (+ mark if continuable) + downstream messages]
  /\ cur[w].h = "CompleteStage" /\ cur[w].e \in Stages /\ status[cur[w].e] = "RUNNING" /\ WriterFree(w)
  /\ cur[w].pc = "appended" /\ tx[w].evs # <<>>
  /\ DetermineStatus(cur[w].e) \notin {"RUNNING", "NOT_STARTED", "SUSPENDED"}
  /\ SameEvent(tx[w].evs[1], StageCompletionEvent(cur[w].e, DetermineStatus(cur[w].e))[1])
  /\ Write([e \in {cur[w].e} |-> DetermineStatus(cur[w].e)], "CompleteStage")
  /\ Durably(w)
  /\ SetCur(w, [cur[w] EXCEPT !.pc = "done"])
  /\ act' = Label("CompleteStageCommit", w, DetermineStatus(cur[w].e) \in {"SUCCEEDED", "FAILED_CONTINUE", "SKIPPED"})
  /\ UNCHANGED <<prog, pend, bus, cnt>>

CompleteStageErrorCommit(w) ==  \* the `except Exception` path after a rolled-back completion: TERMINAL, CancelStage, CompleteWorkflow
  /\ cur[w].h = "CompleteStage" /\ cur[w].e \in Stages /\ status[cur[w].e] = "RUNNING" /\ WriterFree(w)
  /\ cur[w].rb
  /\ IF Defect_ErrorPathNoEvent THEN cur[w].pc = "run" /\ tx[w].evs = <<>>
                                ELSE cur[w].pc = "appended" /\ tx[w].evs # <<>>
                                     /\ SameEvent(tx[w].evs[1], E("stage.failed", cur[w].e, "TERMINAL"))
  /\ Write([e \in {cur[w].e} |-> "TERMINAL"], "CompleteStageError")
  /\ Durably(w)
  /\ SetCur(w, [cur[w] EXCEPT !.pc = "done"])
  /\ act' = Label("CompleteStageErrorCommit", w, FALSE)
  /\ UNCHANGED <<prog, pend, bus, cnt>>

SkipStageCommit(w) ==         \* T[stage SKIPPED, mark, downstream]; the event was recorded BEFORE (own commit)
  /\ cur[w].h = "SkipStage" /\ cur[w].e \in Stages /\ status[cur[w].e] = "NOT_STARTED" /\ WriterFree(w)
  /\ IF Defect_SkipEventBeforeCommit THEN cur[w].pc = "pre" /\ ~tx[w].open /\ pend[w] = <<>>
                                     ELSE cur[w].pc = "appended" /\ tx[w].evs # <<>>
  /\ Write([e \in {cur[w].e} |-> "SKIPPED"], "SkipStage")
  /\ Durably(w)
  /\ SetCur(w, [cur[w] EXCEPT !.pc = "done"])
  /\ act' = Label("SkipStageCommit", w, TRUE)
  /\ UNCHANGED <<prog, pend, bus, cnt>>

CompleteWorkflowCommit(w) ==  \* T[wf status, mark, CancelStage x RUNNING]; the event was recorded BEFORE (own commit)
  /\ cur[w].h = "CompleteWorkflow" /\ cur[w].pc = "pre" /\ ~tx[w].open /\ pend[w] = <<>> /\ WriterFree(w)
  /\ status["wf"] \notin CompleteSt
  /\ Write([e \in {"wf"} |-> cur[w].arg], "CompleteWorkflow")
  /\ SetCur(w, [cur[w] EXCEPT !.pc = "done"])
  /\ act' = Label("CompleteWorkflowCommit", w, TRUE)
  /\ UNCHANGED <<prog, ev, tx, pend, bus, cnt>>

-----------------------------------------------------------------------------
(* failures *)

Rollback(w) ==                \* store.transaction(): except -> conn.rollback(), rollback_versions, abort_store_transaction
  /\ ~Idle(w)                 \* neither the state change nor the appended event becomes durable, publications dropped;
  /\ tx' = [tx EXCEPT ![w] = NoTx]                                      \* retry_on_concurrency_error may run the body again
  /\ pend' = [pend EXCEPT ![w] = <<>>]
  /\ SetCur(w, [cur[w] EXCEPT !.pc = IF @ = "appended" THEN "run" ELSE @, !.rb = TRUE])
  /\ cnt' = [cnt EXCEPT !.rollbacks = @ + 1]
  /\ act' = Label("Rollback", w, FALSE)
  /\ UNCHANGED <<prog, status, ev, bus, wr, done>>

Crash ==                      \* process kill: open transactions, deferred publications, handlers - gone; nothing else
  /\ cur' = [w \in Workers |-> IdleCur]
  /\ tx' = [w \in Workers |-> NoTx]
  /\ pend' = [w \in Workers |-> <<>>]
  /\ cnt' = [cnt EXCEPT !.crashes = @ + 1]
  /\ act' = Label("Crash", "", FALSE)
  /\ UNCHANGED <<prog, status, ev, bus, wr, done>>

-----------------------------------------------------------------------------
(* events/replay.py: EventReplayer._apply_event as a fold.  A replay state: the workflow status, the
   statuses of the stages / tasks that have an entry ("none": entry without status, absent: no entry)
   and - as the image of the DATA the replayer rebuilds - which timestamps are set. *)
Absent == "none"
EmptyReplay == [wf |-> Absent, en |-> <<>>,
                fl |-> [wfStart |-> FALSE, wfEnd |-> FALSE, stStart |-> {}, stEnd |-> {}, tkStart |-> {}, tkEnd |-> {}]]
Dflt(e, d) == IF e.st = "" THEN d ELSE e.st
ApplyWf(s, e) ==
  CASE e.typ = "workflow.started"   -> "RUNNING"
    [] e.typ = "workflow.completed" -> Dflt(e, "SUCCEEDED")
    [] e.typ = "workflow.failed"    -> Dflt(e, "TERMINAL")
    [] e.typ = "workflow.canceled"  -> "CANCELED"
    [] e.typ = "workflow.paused"    -> "PAUSED"
    [] e.typ = "workflow.resumed"   -> "RUNNING"
    [] OTHER -> s
ApplyStage(s, e) ==
  CASE e.typ = "stage.started"   -> "RUNNING"
    [] e.typ = "stage.completed" -> Dflt(e, "SUCCEEDED")
    [] e.typ = "stage.failed"    -> Dflt(e, "TERMINAL")
    [] e.typ = "stage.skipped"   -> "SKIPPED"
    [] e.typ = "stage.canceled"  -> "CANCELED"
    [] OTHER -> s
ApplyTask(s, e) ==
  CASE e.typ = "task.started"   -> "RUNNING"
    [] e.typ = "task.completed" -> Dflt(e, "SUCCEEDED")
    [] e.typ = "task.failed"    -> Dflt(e, "TERMINAL")
    [] OTHER -> s
Get(r, x) == IF x \in DOMAIN r.en THEN r.en[x] ELSE Absent
ApplyFlags(fl, e) ==
  [wfStart |-> fl.wfStart \/ e.typ = "workflow.started",
   wfEnd   |-> fl.wfEnd \/ e.typ \in {"workflow.completed", "workflow.failed", "workflow.canceled"},
   stStart |-> IF e.typ = "stage.started" THEN fl.stStart \cup {e.ent} ELSE fl.stStart,
   stEnd   |-> IF e.typ \in {"stage.completed", "stage.failed"} THEN fl.stEnd \cup {e.ent} ELSE fl.stEnd,
   tkStart |-> IF e.typ = "task.started" THEN fl.tkStart \cup {e.ent} ELSE fl.tkStart,
   tkEnd   |-> IF e.typ \in {"task.completed", "task.failed"} THEN fl.tkEnd \cup {e.ent} ELSE fl.tkEnd]
Apply(r, e) ==
  IF e.typ \in WfTypes THEN [r EXCEPT !.wf = ApplyWf(@, e), !.fl = ApplyFlags(@, e)]
  ELSE IF e.typ \in StageTypes THEN [r EXCEPT !.en = (e.ent :> ApplyStage(Get(r, e.ent), e)) @@ @, !.fl = ApplyFlags(@, e)]
  ELSE IF e.typ \in TaskTypes  THEN [r EXCEPT !.en = (e.ent :> ApplyTask(Get(r, e.ent), e)) @@ @, !.fl = ApplyFlags(@, e)]
  ELSE r
RECURSIVE ReplayFrom(_, _)
ReplayFrom(r, es) == IF es = <<>> THEN r ELSE ReplayFrom(Apply(r, Head(es)), Tail(es))
Replay(es) == ReplayFrom(EmptyReplay, es)

UpTo(n)         == SelectSeq(ev, LAMBDA e : e.seq <= n)                \* as_of_sequence = n
Between(p, n)   == SelectSeq(ev, LAMBDA e : e.seq > p /\ e.seq <= n)   \* get_events_for_workflow(wf, p) then <= n
RebuildAsOf(n)  == Replay(UpTo(n))
(* a snapshot taken at sequence p holds the state rebuilt as of p; rebuilding from it applies exactly
   the later events.  (A snapshot newer than as_of is ignored by rebuild_workflow_state.) *)
FromSnapshot(p, n) == IF p <= n THEN ReplayFrom(RebuildAsOf(p), Between(p, n)) ELSE RebuildAsOf(n)

-----------------------------------------------------------------------------
(* property formulas *)

EvSt(e) == IF e.typ \in {"task.failed", "stage.failed"} THEN Dflt(e, "TERMINAL")
           ELSE IF e.typ = "stage.skipped" THEN "SKIPPED" ELSE Dflt(e, "SUCCEEDED")
EvPair(e) == <<e.ent, EvSt(e)>>
EvPairs(types) == {EvPair(ev[i]) : i \in {j \in DOMAIN ev : ev[j].typ \in types}}
CountEv(types, k) == Cardinality({i \in DOMAIN ev : ev[i].typ \in types /\ EvPair(ev[i]) = k})

(* C13: a completion event of a stage / task exists only if that completion is durable in the store
   (state invariant: holds in every post-crash / post-rollback state) *)
C13_NoPhantom ==
  \A k \in EvPairs(CompletionTypes) : CountEv(CompletionTypes, k) <= Cnt(done.all, k)
(* the same for stage.skipped.  SkipStageHandler records it in a commit of its own BEFORE its state
   transaction, so the formula is evaluated where the statement of C13 looks: with no handler in
   flight, i.e. after a crash (or between two handlers) *)
C13_NoPhantomSkip ==
  AllIdle => \A k \in EvPairs({"stage.skipped"}) : CountEv({"stage.skipped"}, k) <= Cnt(done.all, k)
(* C13: a completion committed by the regular CompleteTask / CompleteStage step never lacks its event *)
C13_NoMissing ==
  \A k \in DOMAIN done.step : done.step[k] <= CountEv(CompletionTypes \cup {"stage.skipped"}, k)
(* C13: subscribers are notified only of events whose transaction committed *)
C13_PublishAfterCommit == \A i \in DOMAIN bus : \E j \in DOMAIN ev : ev[j] = bus[i]
(* C13: sequence numbers are unique and increasing *)
C13_SeqMonotone == \A i, j \in DOMAIN ev : i < j => ev[i].seq < ev[j].seq

(* C12: entities whose current status was written by a regular start / complete / fail / skip / cancel
   step ("init": never touched; a stage force-marked by a jump and the error path are outside) *)
RegularWriters == {"init", "StartWorkflow", "StartStage", "StartTask", "CompleteTask", "CompleteStage", "SkipStage",
                   "CancelStage", "CompleteWorkflow"}
RegularEnts == {x \in Ents : wr[x] \in RegularWriters}
CanceledTasks == {t \in Tasks : wr[t] = "CancelStage"}       \* cancelled inside CancelStage: no event type exists for it
View(r, x) == IF x = "wf" THEN (IF r.wf = Absent THEN "NOT_STARTED" ELSE r.wf)
              ELSE (IF Get(r, x) = Absent THEN "NOT_STARTED" ELSE Get(r, x))
Matches(r, X) == \A x \in X : View(r, x) = status[x]
Quiet == AllIdle /\ cnt.crashes = 0
C12_ReplayMatches == Quiet => Matches(Replay(ev), RegularEnts \ CanceledTasks)
C12_ReplayMatchesCanceledTasks == Quiet => Matches(Replay(ev), CanceledTasks)
(* rebuilding as of sequence n = replaying exactly the events up to it; a snapshot taken at p plus the
   later events = the full replay.  Statements about the log: checked for the logs of the idle states
   (every other log is a prefix of one of them) *)
C12_Prefix ==
  AllIdle => \A n \in 0..LastSeq(ev) :
     RebuildAsOf(n) = Replay(SubSeq(ev, 1, Cardinality({i \in DOMAIN ev : ev[i].seq <= n})))
C12_Snapshot == AllIdle => \A p \in 0..LastSeq(ev) : FromSnapshot(p, LastSeq(ev)) = Replay(ev)

TypeOK ==
  /\ \A x \in DOMAIN status : status[x] \in AllSt
  /\ \A i \in DOMAIN ev : ev[i].typ \in WfTypes \cup StageTypes \cup TaskTypes \cup {"status.changed"} /\ ev[i].ent \in Ents
  /\ \A w \in Workers : tx[w].open \/ tx[w].evs = <<>>
  /\ Cardinality({w \in Workers : tx[w].open}) <= 1
=============================================================================
