------------------------------ MODULE MC_Expr ------------------------------
(***************************************************************************)
(* Enumeration root for Expr: TLC *is* the case generator.  The state is   *)
(* one AST (plus its depth).  Grow wraps the current AST in every          *)
(* constructor of the grammar - supported and unsupported - at every       *)
(* operand position, the other operands ("siblings") coming from a fixed   *)
(* operand set, so level d holds the depth-d ASTs that have one arbitrary  *)
(* spine and sibling operands from the operand set:                        *)
(*   level 0: all leaves;                                                  *)
(*   level 1: EVERY depth-1 AST over the leaves (siblings = all leaves);   *)
(*   level>1: spine ASTs selected by Expand, siblings from Core.           *)
(* Every distinct AST is exported once with EvalTop under each context, by *)
(* the side effect of invariant Export (evaluated on new states only).     *)
(***************************************************************************)
EXTENDS Expr, TLC, Json

CONSTANTS MaxDepth,      \* depth of the enumerated ASTs
          FullFrom,      \* levels < FullFrom are expanded completely, deeper ones only over Core leaves
          SampleMod,     \* at the last expansion keep the spines of ONE checksum class modulo SampleMod (Seed picks it)
          Seed

VARIABLES ast, depth

(***************************************************************************)
(* Grammar                                                                 *)
(***************************************************************************)
LeafNames  == {"x", "y", "s", "d", "true", "TRUE", "null"}
LeafConsts == {None, B(TRUE), B(FALSE), I(0), I(1), I(2), S(<<>>), S(<<"a">>), S(<<"k">>)}
NegOne     == Un("neg", Const(I(1)))      \* the literal -1 (Python has no negative constants): treated as a leaf
Leaves     == {Name(n) : n \in LeafNames} \cup {Const(v) : v \in LeafConsts} \cup {NegOne}
Core       == {Name("x"), Name("y"), Name("d"), Const(I(1)), Const(S(<<"a">>))}
Core3      == {Name("y"), Const(I(1)), Const(S(<<"a">>))}     \* siblings of the ternary constructors
Singletons == {Const(None), Const(B(TRUE)), Const(B(FALSE))}
OrdOps     == CmpOps \ {"Is", "IsNot"}
ChainOps   == {"Lt", "Eq", "In"}
UnsupForms == {"call", "binop", "lambda", "listcomp", "genexp", "dict", "set", "fstr", "walrus", "await"}

Wrap(a, Sib, Sib3) ==
       {Un(op, a) : op \in {"not", "neg", "pos", "inv"}}
  \cup {Attr(a, n) : n \in {"k", "a", "__class__"}}      \* __class__: every Python object has one; only dict KEYS count
  \cup {Sub(a, s) : s \in Sib} \cup {Sub(s, a) : s \in Sib}
  \cup {Slice(a, Const(I(1)))} \cup {Slice(s, a) : s \in Sib3}
  \cup {Cmp(a, <<op>>, <<s>>) : op \in OrdOps, s \in Sib}
  \cup {Cmp(s, <<op>>, <<a>>) : op \in OrdOps, s \in Sib}
  \cup {Cmp(a, <<op>>, <<c>>) : op \in {"Is", "IsNot"}, c \in Singletons}
  \cup {Cmp(a, <<o1, o2>>, <<s1, s2>>) : o1 \in ChainOps, o2 \in ChainOps, s1 \in Sib3, s2 \in Sib3}
  \cup {Cmp(s1, <<o1, o2>>, <<a, s2>>) : o1 \in ChainOps, o2 \in ChainOps, s1 \in Sib3, s2 \in Sib3}
  \cup {Cmp(s1, <<o1, o2>>, <<s2, a>>) : o1 \in ChainOps, o2 \in ChainOps, s1 \in Sib3, s2 \in Sib3}
  \cup {Cmp(a, <<"Is", "Eq">>, <<Const(None), s>>) : s \in Sib3}
  \cup {Cmp(s, <<"GtE", "IsNot">>, <<a, Const(None)>>) : s \in Sib3}
  \cup {BoolOp(op, <<a, s>>) : op \in {"and", "or"}, s \in Sib}
  \cup {BoolOp(op, <<s, a>>) : op \in {"and", "or"}, s \in Sib}
  \cup {BoolOp(op, <<s1, a, s2>>) : op \in {"and", "or"}, s1 \in Sib3, s2 \in Sib3}
  \cup {IfExp(a, s1, s2) : s1 \in Sib3, s2 \in Sib3}
  \cup {IfExp(s1, a, s2) : s1 \in Sib3, s2 \in Sib3}
  \cup {IfExp(s1, s2, a) : s1 \in Sib3, s2 \in Sib3}
  \cup {ListD(<<a>>), TupleD(<<a>>)}
  \cup {ListD(<<a, s>>) : s \in Sib} \cup {ListD(<<s, a>>) : s \in Sib}
  \cup {TupleD(<<a, s>>) : s \in Sib} \cup {TupleD(<<s, a>>) : s \in Sib}
  \cup {Unsup(f, <<a>>) : f \in UnsupForms}
  \cup {ListD(<<s, Unsup("starred", <<a>>)>>) : s \in Sib3}

\* the leaves an AST is built from
RECURSIVE LeavesOf(_)
UnionSeq(xs) == UNION {LeavesOf(xs[j]) : j \in 1..Len(xs)}
LeavesOf(n) ==
  CASE n.k \in {"name", "const"} -> {n}
    [] n.k \in {"attr", "un"}    -> LeavesOf(n.a)
    [] n.k \in {"sub", "slice"}  -> LeavesOf(n.a) \cup LeavesOf(n.x)
    [] n.k = "cmp"               -> LeavesOf(n.a) \cup UnionSeq(n.rs)
    [] n.k = "if"                -> LeavesOf(n.c) \cup LeavesOf(n.a) \cup LeavesOf(n.b)
    [] OTHER                     -> UnionSeq(n.xs)

\* a cheap structural checksum, used only to pick a seeded sample of spines at the deepest level
RECURSIVE Checksum(_)
SumSeq(xs) == LET f[j \in 0..Len(xs)] == IF j = 0 THEN 0 ELSE (f[j - 1] * 31 + Checksum(xs[j])) % 65521 IN f[Len(xs)]
KindCode(k) == CASE k = "name" -> 3 [] k = "const" -> 5 [] k = "attr" -> 7 [] k = "sub" -> 11 [] k = "slice" -> 13
                 [] k = "cmp" -> 17 [] k = "bool" -> 19 [] k = "un" -> 23 [] k = "if" -> 29 [] k = "list" -> 31
                 [] k = "tuple" -> 37 [] k = "unsup" -> 41
Checksum(n) ==
  (KindCode(n.k) * 131 +
   CASE n.k = "name"  -> Cardinality({m \in LeafNames : m = n.id}) + Len(n.id) * 7 + (IF n.id \in {"x", "s", "true"} THEN 1 ELSE 0)
     [] n.k = "const" -> (IF n.v.t = "int" THEN 100 + n.v.i ELSE IF n.v.t = "str" THEN 200 + Len(n.v.s) ELSE IF n.v.t = "bool" THEN 300 ELSE 400)
     [] n.k \in {"attr", "un"}   -> Checksum(n.a) * 3 + (IF n.k = "un" THEN Len(n.op) ELSE 1)
     [] n.k \in {"sub", "slice"} -> Checksum(n.a) * 5 + Checksum(n.x)
     [] n.k = "cmp"   -> Checksum(n.a) * 7 + SumSeq(n.rs) + Len(n.ops[1]) * 13
     [] n.k = "if"    -> Checksum(n.c) * 11 + Checksum(n.a) * 3 + Checksum(n.b)
     [] OTHER         -> SumSeq(n.xs) + 1) % 65521

\* spread the checksum over 0..65520 (65521 is prime) before reducing it modulo SampleMod
Scramble(h) == (((h * 30011) % 65521) * 177 + h) % 65521

Expand(a, d) ==                      \* is `a` (at depth d) used as a spine for depth d+1 ?
  /\ d < MaxDepth
  /\ d < FullFrom \/ LeavesOf(a) \subseteq Core
  /\ (d = MaxDepth - 1 /\ SampleMod > 1) => Scramble(Checksum(a)) % SampleMod = Seed % SampleMod

Init == ast \in Leaves /\ depth = 0
Grow == /\ Expand(ast, depth)
        /\ ast' \in IF depth = 0 THEN Wrap(ast, Leaves, Core) \cup {ListD(<<>>), TupleD(<<>>)}
                                 ELSE Wrap(ast, Core, Core3)
        /\ depth' = depth + 1
Next == Grow

(***************************************************************************)
(* Export (compact tuples -> JSON arrays)                                  *)
(***************************************************************************)
RECURSIVE EncV(_), EncA(_)
EncSeq(xs)  == [j \in 1..Len(xs) |-> EncA(xs[j])]
EncV(v) == CASE v.t = "none"  -> <<"N">>
             [] v.t = "bool"  -> <<"B", v.b>>
             [] v.t = "int"   -> <<"I", v.i>>
             [] v.t = "str"   -> <<"S", v.s>>
             [] v.t = "list"  -> <<"L", [j \in 1..Len(v.e) |-> EncV(v.e[j])]>>
             [] v.t = "tuple" -> <<"T", [j \in 1..Len(v.e) |-> EncV(v.e[j])]>>
             [] v.t = "dict"  -> <<"D", [j \in 1..Len(v.kv) |-> <<EncV(v.kv[j][1]), EncV(v.kv[j][2])>>]>>
             [] v.t = "err"   -> <<"E", v.site>>
EncA(n) == CASE n.k = "name"  -> <<"name", n.id>>
             [] n.k = "const" -> <<"const", EncV(n.v)>>
             [] n.k = "attr"  -> <<"attr", EncA(n.a), n.n>>
             [] n.k = "sub"   -> <<"sub", EncA(n.a), EncA(n.x)>>
             [] n.k = "slice" -> <<"slice", EncA(n.a), EncA(n.x)>>
             [] n.k = "cmp"   -> <<"cmp", EncA(n.a), n.ops, EncSeq(n.rs)>>
             [] n.k = "bool"  -> <<"bool", n.op, EncSeq(n.xs)>>
             [] n.k = "un"    -> <<"un", n.op, EncA(n.a)>>
             [] n.k = "if"    -> <<"if", EncA(n.c), EncA(n.a), EncA(n.b)>>
             [] n.k = "list"  -> <<"list", EncSeq(n.xs)>>
             [] n.k = "tuple" -> <<"tuple", EncSeq(n.xs)>>
             [] n.k = "unsup" -> <<"unsup", n.f, EncSeq(n.xs)>>
EncCtx(c) == [n \in DOMAIN c |-> EncV(c[n])]

Export ==
  PrintT(<<"CASE", ToJson(<<depth, EncA(ast),
                           [c \in 1..Len(Ctxs) |-> EncV(EvalTop(ast, Ctxs[c]))],
                           [c \in 1..Len(Ctxs) |-> ShouldSkip(ast, Ctxs[c])],
                           \* OR-split over downstreams <<this condition, "0">> and <<this condition, no condition>>
                           [c \in 1..Len(Ctxs) |-> <<SplitActivated(<<ast, Const(I(0))>>, Ctxs[c]),
                                                     SplitActivated(<<ast, NoCond>>, Ctxs[c])>>]>>)>>)

CtxExport == PrintT(<<"CTXS", ToJson([c \in 1..Len(Ctxs) |-> EncCtx(Ctxs[c])])>>)
ASSUME CtxExport
=============================================================================
