---- MODULE MC_Slots ----
\* export root for Slots.tla: prints every reachable assignment of workflow statuses, marking the terminal ones
EXTENDS Slots, Json
Seen == PrintT(<<"WST", ToJson(wst), IF ENABLED Next THEN "live" ELSE "terminal">>)
====
