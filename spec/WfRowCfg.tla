---- MODULE WfRowCfg ----
\* sample configuration (harness/check_wfrow.py writes the real one per run)
Scenario == "complete"
NStages == 0
NInitial == 1
====
