------------------------------- MODULE Dedup -------------------------------
(***************************************************************************)
(* The in-memory duplicate filter (C09, second sentence) and the rule by   *)
(* which the queue processor trusts it.                                    *)
(*                                                                         *)
(* Transcribes /repo/src/stabilize/queue/dedup.py (BloomDeduplicator) and  *)
(* the parts of queue/processor/mixins.py that use it (_handle_message,    *)
(* _hydrate_deduplicator) and processor.py (__init__ hydrates).            *)
(*                                                                         *)
(* THE HASH FUNCTION IS ARBITRARY.  `h` is chosen in Init from ALL         *)
(* functions Ids -> non-empty sets of at most K of the M bit positions     *)
(* (double hashing (h1 + i*h2) mod m may repeat a position, hence "at      *)
(* most") and never changes.  MD5/SHA1 on four concrete ids is one such    *)
(* function; the harness checks that and replays the behaviours of the     *)
(* specification for exactly that function on the real class.              *)
(*                                                                         *)
(* Two next-state relations over the same variables:                       *)
(*   FilterNext  any caller: Mark / Hydrate(S) / Reset / Age in any order  *)
(*   ProcNext    the queue processor: Threads worker threads running       *)
(*               _handle_message, one step per linearization point (each   *)
(*               filter method holds the filter's lock, each store call is *)
(*               one statement), plus process restart and ageing.          *)
(*                                                                         *)
(* Deliberate deviations (named):                                          *)
(*  D1 hydrate() sets the bits id by id (one lock acquisition each) and    *)
(*     then grants; modelled as TWO steps (all bits, then grant).          *)
(*  D2 age is a boolean (`aged`: older than max_age), set by the           *)
(*     environment at any time and cleared by reset().                     *)
(*  D3 the same message is never handled by two threads at once (queue     *)
(*     lock + _in_flight: property C08, not this one).                     *)
(*  D4 the retention sweep (deletes old processed rows, opt-in) is absent. *)
(***************************************************************************)
EXTENDS Naturals, FiniteSets, TLC

CONSTANTS Ids,        \* universe of message ids (model values)
          M, K,       \* bit array size, number of hash functions
          Cap,        \* filter capacity (expected_items): hydration limit
          Trust,      \* config.dedup_trust_negative_cache
          Threads,    \* worker threads of the one process (ProcNext)
          MultiWriter,\* TRUE: another PROCESS writes processed_messages (breaks the documented precondition)
          Fix,        \* {} = the code as it is; otherwise the parts of the proposed repair that are applied
                      \* (docs/proposed_fixes/C09-dedup-race.diff):
                      \*   "decision" maybe_seen + authoritative are read in ONE critical section
                      \*   "rotation" reset + re-hydration are one critical section
                      \*   "record"   the durable record is written before the filter is marked
          Variants,   \* handler outcomes explored: subset of {"txn", "plain", "fail"} (see Handle)
          FixedH      \* {} = quantify over every hash function; otherwise the set of functions to explore

NoMsg == "-"
Pos == 0..(M - 1)
PosSets == {S \in SUBSET Pos : S # {} /\ Cardinality(S) <= K}
HashFunctions == [Ids -> PosSets]

VARIABLES
  h,          \* the hash function (constant along a behaviour)
  bits,       \* _bit_array as the set of set positions
  auth,       \* _authoritative
  aged,       \* age > _max_age_seconds (D2)
  told,       \* GHOST: ids marked or hydrated since the last reset
  hyd,        \* GHOST: a hydrate() completed since the last reset / creation
  processed,  \* durable processed_messages
  pc, msg, ms, checked, snap,   \* per worker thread: control point, message id, maybe_seen answer,
                                \* durable check done?, ids read for hydration
  committed,  \* GHOST: ids whose handler committed its effects TOGETHER WITH the processed record
  bad,        \* GHOST: ids whose handler was entered again after that (the C09 violation)
  badAny,     \* GHOST: ids whose handler was entered although the id was in processed (stronger reading)
  act         \* label of the last step (for export and for the step properties); not part of the VIEW

fvars == <<h, bits, auth, aged, told, hyd>>
pvars == <<processed, pc, msg, ms, checked, snap, committed, bad, badAny>>
ghosts == <<committed, bad, badAny>>
vars  == <<fvars, pvars, act>>
View  == <<fvars, pvars>>

T == 1..Threads

\* ---- BloomDeduplicator: queries ------------------------------------------------------------------
MaybeSeen(x)  == h[x] \subseteq bits                        \* all k positions set
FillOver      == 10 * Cardinality(bits) > 7 * M             \* fill_ratio > 0.7
ShouldReset   == aged \/ FillOver                           \* should_reset(0.7)

\* ---- BloomDeduplicator: updates (each is one critical section) -----------------------------------
DoMark(S)  == /\ bits' = bits \cup UNION {h[x] : x \in S}
              /\ told' = told \cup S
DoReset    == /\ bits' = {} /\ auth' = FALSE /\ aged' = FALSE
              /\ told' = {} /\ hyd' = FALSE
DoGrant    == /\ auth' = TRUE /\ hyd' = TRUE

InitRest(a) ==
  /\ h \in (IF FixedH = {} THEN HashFunctions ELSE FixedH)
  /\ bits = {} /\ aged = FALSE /\ told = {} /\ auth = a /\ hyd = a
  /\ processed = {}
  /\ pc = [t \in T |-> "idle"] /\ msg = [t \in T |-> NoMsg] /\ ms = [t \in T |-> FALSE]
  /\ checked = [t \in T |-> FALSE] /\ snap = [t \in T |-> {}]
  /\ committed = {} /\ bad = {} /\ badAny = {}
  /\ act = [op |-> "init"]
\* a BloomDeduplicator just constructed: not authoritative
Init == InitRest(FALSE)
\* a process just started on an empty store: QueueProcessor.__init__ has hydrated the filter (from nothing)
ProcInit == InitRest(TRUE)

(***************************************************************************)
(* FilterNext: the class on its own, any caller.                           *)
(***************************************************************************)
Mark(x) ==
  /\ DoMark({x}) /\ UNCHANGED <<h, auth, aged, hyd, pvars>>
  /\ act' = [op |-> "mark", x |-> x]
Hydrate(S) ==       \* hydrate(S) by a single caller: bits of S, then authority - whatever S is
  /\ DoMark(S) /\ DoGrant /\ UNCHANGED <<h, aged, pvars>>
  /\ act' = [op |-> "hydrate", S |-> S]
Reset ==
  /\ DoReset /\ UNCHANGED <<h, pvars>>
  /\ act' = [op |-> "reset"]
Age ==
  /\ ~aged /\ aged' = TRUE /\ UNCHANGED <<h, bits, auth, told, hyd, pvars>>
  /\ act' = [op |-> "age"]

FilterCore == (\E x \in Ids : Mark(x)) \/ (\E S \in SUBSET Ids : Hydrate(S)) \/ Reset
FilterNext == FilterCore \/ Age       \* FilterCore: without the clock (the quick tier's all-functions run)

(***************************************************************************)
(* ProcNext: _handle_message, thread t, message id x.                      *)
(***************************************************************************)
Goto(t, l) == pc' = [pc EXCEPT ![t] = l]
Lbl(t, o)  == act' = [op |-> o, t |-> t, x |-> msg[t]]
Done(t)    == /\ pc' = [pc EXCEPT ![t] = "idle"] /\ msg' = [msg EXCEPT ![t] = NoMsg]
              /\ ms' = [ms EXCEPT ![t] = FALSE] /\ checked' = [checked EXCEPT ![t] = FALSE]
              /\ snap' = [snap EXCEPT ![t] = {}]

\* a message (any id, processed or not: redelivery) reaches an idle thread
Deliver(t, x) ==
  /\ pc[t] = "idle" /\ \A u \in T : msg[u] # x                     \* D3
  /\ msg' = [msg EXCEPT ![t] = x] /\ Goto(t, "query")
  /\ UNCHANGED <<fvars, processed, ms, checked, snap, ghosts>>
  /\ act' = [op |-> "deliver", t |-> t, x |-> x]

\* dedup.maybe_seen(message_id)
Query(t) ==
  /\ pc[t] = "query"
  /\ ms' = [ms EXCEPT ![t] = MaybeSeen(msg[t])]
  /\ Goto(t, IF "decision" \in Fix THEN (IF MaybeSeen(msg[t]) \/ ~(Trust /\ auth) THEN "check" ELSE "rot")
              ELSE (IF MaybeSeen(msg[t]) \/ ~Trust THEN "check" ELSE "readauth"))
  /\ UNCHANGED <<fvars, processed, msg, checked, snap, ghosts>> /\ Lbl(t, "query")

\* ... or not (trust_negative and dedup.authoritative): a SECOND critical section
ReadAuth(t) ==
  /\ pc[t] = "readauth"
  /\ Goto(t, IF auth THEN "rot" ELSE "check")
  /\ UNCHANGED <<fvars, processed, msg, ms, checked, snap, ghosts>> /\ Lbl(t, "readauth")

\* store.is_message_processed(message_id)
Check(t) ==
  /\ pc[t] = "check"
  /\ IF msg[t] \in processed
     THEN Done(t) /\ act' = [op |-> "skipdup", t |-> t, x |-> msg[t]]
     ELSE /\ Goto(t, "rot") /\ checked' = [checked EXCEPT ![t] = TRUE]
          /\ UNCHANGED <<msg, ms, snap>> /\ Lbl(t, "check")
  /\ UNCHANGED <<fvars, processed, ghosts>>

\* dedup.should_reset(0.7)
HydrateAll ==    \* a fresh filter hydrated from the store in one step (restart; rotation under Fix)
  /\ aged' = FALSE
  /\ IF Cardinality(processed) > Cap
     THEN bits' = {} /\ told' = {} /\ auth' = FALSE /\ hyd' = FALSE
     ELSE /\ bits' = UNION {h[x] : x \in processed} /\ told' = processed
          /\ auth' = TRUE /\ hyd' = TRUE
Rot(t) ==
  /\ pc[t] = "rot"
  /\ IF "rotation" \in Fix /\ ShouldReset
     THEN HydrateAll /\ Goto(t, "handle") /\ UNCHANGED h
     ELSE Goto(t, IF ShouldReset THEN "reset" ELSE "handle") /\ UNCHANGED fvars
  /\ UNCHANGED <<processed, msg, ms, checked, snap, ghosts>> /\ Lbl(t, "rot")

\* dedup.reset()
PReset(t) ==
  /\ pc[t] = "reset" /\ DoReset /\ Goto(t, "readids")
  /\ UNCHANGED <<h, processed, msg, ms, checked, snap, ghosts>> /\ Lbl(t, "reset")

\* _hydrate_deduplicator: ids = store.get_processed_message_ids(limit = capacity + 1);
\* more than capacity ids: the filter stays advisory (no hydrate at all)
ReadIds(t) ==
  /\ pc[t] = "readids"
  /\ IF Cardinality(processed) > Cap
     THEN Goto(t, "handle") /\ UNCHANGED snap
     ELSE Goto(t, "hydbits") /\ snap' = [snap EXCEPT ![t] = processed]
  /\ UNCHANGED <<fvars, processed, msg, ms, checked, ghosts>> /\ Lbl(t, "readids")

\* dedup.hydrate(ids): the bits ... (D1)
HydBits(t) ==
  /\ pc[t] = "hydbits" /\ DoMark(snap[t]) /\ Goto(t, "grant")
  /\ UNCHANGED <<h, auth, aged, hyd, processed, msg, ms, checked, snap, ghosts>> /\ Lbl(t, "hydbits")
\* ... and then the authority
Grant(t) ==
  /\ pc[t] = "grant" /\ DoGrant /\ Goto(t, "handle")
  /\ UNCHANGED <<h, bits, aged, told, processed, msg, ms, checked, snap, ghosts>> /\ Lbl(t, "grant")

\* the code marks the filter first and the store second; the repair records durably first
AfterHandle == IF "record" \in Fix THEN "markdb" ELSE "mark"

\* handler.handle(message).  v = "txn": the handler commits its effects together with the processed
\* record (the usual path); "plain": the handler returns without recording (early-return paths; the
\* generic mark below records it); "fail": the handler raises, nothing is recorded.
Handle(t, v) ==
  /\ pc[t] = "handle"
  /\ bad' = IF msg[t] \in committed THEN bad \cup {msg[t]} ELSE bad
  /\ badAny' = IF msg[t] \in processed THEN badAny \cup {msg[t]} ELSE badAny
  /\ CASE v = "txn"   -> /\ processed' = processed \cup {msg[t]} /\ committed' = committed \cup {msg[t]}
                         /\ Goto(t, AfterHandle) /\ UNCHANGED <<msg, ms, checked, snap>>
       [] v = "plain" -> /\ UNCHANGED <<processed, committed>> /\ Goto(t, AfterHandle)
                         /\ UNCHANGED <<msg, ms, checked, snap>>
       [] v = "fail"  -> /\ UNCHANGED <<processed, committed>> /\ Done(t)
  /\ UNCHANGED fvars
  /\ act' = [op |-> "handle", t |-> t, x |-> msg[t], v |-> v, skipped |-> ~checked[t]]

\* dedup.mark_seen(message_id)
MarkSeen(t) ==
  /\ pc[t] = "mark" /\ DoMark({msg[t]})
  /\ IF "record" \in Fix THEN Done(t) ELSE Goto(t, "markdb") /\ UNCHANGED <<msg, ms, checked, snap>>
  /\ UNCHANGED <<h, auth, aged, hyd, processed, ghosts>> /\ Lbl(t, "markseen")

\* store.mark_message_processed(message_id)   (INSERT OR IGNORE)
MarkDb(t) ==
  /\ pc[t] = "markdb" /\ processed' = processed \cup {msg[t]}
  /\ IF "record" \in Fix THEN Goto(t, "mark") /\ UNCHANGED <<msg, ms, checked, snap>> ELSE Done(t)
  /\ UNCHANGED <<fvars, ghosts>> /\ Lbl(t, "markdb")

\* the process dies and a new one starts: every thread is gone, get_deduplicator() creates a fresh
\* filter, QueueProcessor.__init__ hydrates it (single threaded at that point: one step)
Restart ==
  /\ pc' = [t \in T |-> "idle"] /\ msg' = [t \in T |-> NoMsg] /\ ms' = [t \in T |-> FALSE]
  /\ checked' = [t \in T |-> FALSE] /\ snap' = [t \in T |-> {}]
  /\ HydrateAll
  /\ UNCHANGED <<h, processed, ghosts>>
  /\ act' = [op |-> "restart"]

PAge ==
  /\ ~aged /\ aged' = TRUE /\ UNCHANGED <<h, bits, auth, told, hyd, pvars>>
  /\ act' = [op |-> "age"]

\* another process handled x and recorded it (only if the documented precondition is dropped)
Foreign(x) ==
  /\ MultiWriter /\ x \notin processed /\ \A u \in T : msg[u] # x
  /\ processed' = processed \cup {x} /\ committed' = committed \cup {x}
  /\ UNCHANGED <<fvars, pc, msg, ms, checked, snap, bad, badAny>>
  /\ act' = [op |-> "foreign", x |-> x]

ThreadStep(t) ==
  \/ \E x \in Ids : Deliver(t, x)
  \/ Query(t) \/ ReadAuth(t) \/ Check(t) \/ Rot(t) \/ PReset(t) \/ ReadIds(t) \/ HydBits(t) \/ Grant(t)
  \/ \E v \in Variants : Handle(t, v)
  \/ MarkSeen(t) \/ MarkDb(t)

ProcNext == (\E t \in T : ThreadStep(t)) \/ Restart \/ PAge \/ (\E x \in Ids : Foreign(x))

(***************************************************************************)
(* Properties.                                                             *)
(***************************************************************************)
TypeOK ==
  /\ h \in HashFunctions /\ bits \subseteq Pos /\ auth \in BOOLEAN /\ aged \in BOOLEAN
  /\ told \subseteq Ids /\ hyd \in BOOLEAN /\ processed \subseteq Ids /\ bad \subseteq Ids
  /\ committed \subseteq processed

\* "The in-memory filter never reports an id it has been told about as new" - for EVERY hash function
NoFalseNegative == \A x \in told : MaybeSeen(x)
\* stronger: the bit array is exactly the image of what it was told (reset really clears, nothing else sets)
BitsExact == bits = UNION {h[x] : x \in told}
\* a fresh / reset filter answers "new" for everything (the spec determines these answers too)
EmptyAnswersNew == bits = {} => \A x \in Ids : ~MaybeSeen(x)

\* authority: exactly "a hydrate() completed and no reset() since"
AuthorityExact == auth = hyd
\* step form (act' names the step just taken)
ResetRevokes  == [][act'.op = "reset" => (~auth' /\ bits' = {} /\ told' = {})]_vars
OnlyHydrateGrants == [][(~auth /\ auth') => act'.op \in {"hydrate", "grant", "restart", "rot"}]_vars
HydrateGrants == [][act'.op = "hydrate" => (auth' /\ act'.S \subseteq told')]_vars
OnlyResetRevokes == [][(auth /\ ~auth') => act'.op \in {"reset", "restart", "rot"}]_vars

\* processor level --------------------------------------------------------------------------------
InFlight == {msg[t] : t \in {u \in T : pc[u] \in {"mark", "markdb"}}}
\* while authoritative the filter knows every processed id (except the one a thread is just recording)
AuthorityCovers == auth => (processed \ InFlight) \subseteq told
\* the decision rule: the durable check is skipped iff trust /\ authoritative /\ ~maybe_seen
SkipRule == \A t \in T : pc[t] = "handle" => (checked[t] \/ (Trust /\ ~ms[t]))
TrustOffAlwaysChecks == ~Trust => \A t \in T : pc[t] \in {"rot", "reset", "readids", "hydbits", "grant", "handle"} => checked[t]
\* C09: a message whose handling committed (effects + processed record together) is never dispatched again
NoRedispatch == bad = {}
\* stronger reading: nor one whose processed record was written by the generic mark after the handler returned
NoRedispatchAny == badAny = {}

FilterSpec == Init /\ [][FilterNext]_vars
ProcSpec   == ProcInit /\ [][ProcNext]_vars
=============================================================================
