------------------------------ MODULE MC_Graph ------------------------------
(***************************************************************************)
(* Enumeration root for Graph: TLC *is* the case generator.  The state is  *)
(* one stage list; AddStage appends any stage of the alphabet, so the      *)
(* reachable states are exactly the stage lists of length <= MaxLen (one   *)
(* per orbit of the letter permutations when SYMMETRY LetterSym is on).    *)
(* Join types: every stage may be AND; a non-AND join type is put only on  *)
(* a real join (>= 2 requisites; with fewer, "any" and "all" upstreams     *)
(* coincide), on at most MaxNonAnd stages of a list, in lists of at most   *)
(* JoinMaxLen stages, and - when JoinUniqueOnly - only in lists whose refs  *)
(* are unique (a list with duplicate refs is rejected before any ordering).*)
(* Every distinct state is exported once, with the verdicts the            *)
(* definitions of Graph give for it, through the side effect of the        *)
(* invariant Export (TLC evaluates invariants on new distinct states only).*)
(***************************************************************************)
EXTENDS Graph, TLC, Json

CONSTANTS MaxLen, MaxNonAnd, JoinMaxLen, JoinUniqueOnly
VARIABLE g

Init == g = <<>>

NonAnd(gr) == Cardinality({i \in Idx(gr) : gr[i].join # "AND"})

\* may stage s be appended to gr ?  (the restrictions on non-AND join types, see above)
JoinAllowed(gr, s) ==
  LET grs == Append(gr, s)
  IN  /\ (s.join = "AND") \/ ( /\ Cardinality(s.reqs) >= 2
                               /\ NonAnd(gr) < MaxNonAnd )
      /\ (NonAnd(grs) = 0) \/ ( /\ Len(grs) <= JoinMaxLen
                                /\ (~JoinUniqueOnly) \/ UniqueRefs(grs) )

AddStage(s) == /\ Len(g) < MaxLen
               /\ JoinAllowed(g, s)
               /\ g' = Append(g, s)

Next == \E s \in Stage : AddStage(s)

LetterSym == Permutations(Refs)

\* model values print as their names; stages are exported as <<ref, reqs, join>> triples
Enc(gr) == [i \in Idx(gr) |-> <<ToString(gr[i].ref), {ToString(r) : r \in gr[i].reqs}, gr[i].join>>]
LayerSeq(gr) == [k \in 1..Len(Layers(gr)) |-> Layers(gr)[k]]

Export ==
  PrintT(<<"CASE", ToJson([g |-> Enc(g), valid |-> Valid(g), kind |-> ErrKind(g),
                           sortable |-> Sortable(g), layers |-> LayerSeq(g)])>>)

DefsAgree == DefsAgreeOn(g)
=============================================================================
