------------------------------ MODULE MC_Graph ------------------------------
(***************************************************************************)
(* Enumeration root for Graph: TLC *is* the case generator.  The state is  *)
(* one stage list; AddStage appends any stage of the alphabet, so the      *)
(* reachable states are exactly the stage lists of length <= MaxLen (one   *)
(* per orbit of the letter permutations when SYMMETRY LetterSym is on).    *)
(* Every distinct state is exported once, with the verdicts the            *)
(* definitions of Graph give for it, through the side effect of the        *)
(* invariant Export (TLC evaluates invariants on new distinct states only).*)
(***************************************************************************)
EXTENDS Graph, TLC, Json

CONSTANTS MaxLen
VARIABLE g

Init == g = <<>>

AddStage(s) == /\ Len(g) < MaxLen
               /\ g' = Append(g, s)

Next == \E s \in Stage : AddStage(s)

LetterSym == Permutations(Refs)

\* model values print as their names; stages are exported as <<ref, reqs>> pairs
Enc(gr) == [i \in Idx(gr) |-> <<ToString(gr[i].ref), {ToString(r) : r \in gr[i].reqs}>>]
LayerSeq(gr) == [k \in 1..Len(Layers(gr)) |-> Layers(gr)[k]]

Export ==
  PrintT(<<"CASE", ToJson([g |-> Enc(g), valid |-> Valid(g), kind |-> ErrKind(g),
                           sortable |-> Sortable(g), layers |-> LayerSeq(g)])>>)

DefsAgree == DefsAgreeOn(g)
=============================================================================
