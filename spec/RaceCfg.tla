---- MODULE RaceCfg ----
\* sample of the module generated per scenario by harness/check_race.py
EXTENDS TLC
Workers == {1, 2}
Up == {"b", "c"}
Branch == (1 :> "b" @@ 2 :> "c")
JoinType == "AND"
Threshold == 0
Scenario == "A"
SibOrder == <<"b", "c">>
InitSt == [s \in Up \cup {"d"} |-> [status |-> IF s = "d" THEN "NOT_STARTED" ELSE "SUCCEEDED", ver |-> IF s = "d" THEN 0 ELSE 6,
                                   fired |-> FALSE, cb |-> {}, tver |-> IF s = "d" THEN 0 ELSE 6, nt |-> 1]]
====
