---------------------------- MODULE Progress ----------------------------
(***************************************************************************)
(* C14 under a second worker.                                              *)
(*                                                                         *)
(* Worker "r" handles RunTask(t); the task body fails with                 *)
(* TransientError(context_update = [prog |-> seen + 1]).  While it does,   *)
(* other workers write the SAME stage row: each worker in Writers handles  *)
(* a persistent SignalStage for the stage, which is RUNNING, so the signal *)
(* is buffered in the stage context (handlers/signal_stage.py, WCP-24) -   *)
(* one read-modify-write of the stage row under the version CAS.           *)
(*                                                                         *)
(* Grain (the one SQLite allows, as in Race.tla): a step is what a worker  *)
(* does between two statements that open a write transaction - "the write  *)
(* transaction + every read up to the next write".  So the first step of a *)
(* worker are its initial reads (for "r": with_task's read, the task body  *)
(* and the re-read inside do_update_context), every later step starts with *)
(* a write transaction.                                                    *)
(*                                                                         *)
(* handlers/run_task/error.py:_handle_transient_retry - as coded:          *)
(*   do_update_context: fresh := retrieve_stage; fresh.context.update(cu); *)
(*   ONE transaction: store_stage(fresh) [CAS on fresh.version] + push of  *)
(*   the delayed retry RunTask; on ConcurrencyError the closure is run     *)
(*   again (retry_on_concurrency_error), i.e. it RE-READS.                 *)
(* Then the processor marks the message processed (own commit) and acks.   *)
(***************************************************************************)
EXTENDS Naturals, FiniteSets, TLC, ProgressCfg
(* ProgressCfg: Writers (set of worker ids, disjoint from {"r"}), InitRow, MaxTries, InnerRetries (= 5: DEADLOCK_RETRY_POLICY) *)

VARIABLES
  row,     \* the stage row: [ver, prog, buf]   (prog = context["prog.<t>"], buf = number of buffered signals)
  retry,   \* number of retry RunTask messages pushed (delayed)
  done,    \* workers whose message has a processed record
  inq,     \* workers whose message is still in the queue
  wk,      \* per worker: [pc, snap (the row as last read), tries (re-reads), inner (re-submissions of the same snapshot)]
  seen     \* the progress the task body saw in this attempt (ghost: what it attaches is seen + 1)

vars == <<row, retry, done, inq, wk, seen>>
All == Writers \cup {"r"}
NoSnap == [ver |-> 0, prog |-> 0, buf |-> 0]

Init ==
  /\ row = InitRow /\ retry = 0 /\ done = {} /\ inq = All /\ seen = 0
  /\ wk = [w \in All |-> [pc |-> "start", snap |-> NoSnap, tries |-> 0, inner |-> 0]]

Go(w, pc) == wk' = [wk EXCEPT ![w].pc = pc]

(* ---- worker r: RunTask with a transient failure that carries progress ---- *)
RStart ==   \* with_task read, task body (sees row.prog, attaches prog + 1), re-read in the closure: all before the first write
  /\ wk["r"].pc = "start"
  /\ seen' = row.prog
  /\ wk' = [wk EXCEPT !["r"] = [pc |-> "store", snap |-> row, tries |-> 0, inner |-> 0]]
  /\ UNCHANGED <<row, retry, done, inq>>

RStore ==   \* ONE transaction: CAS store of the re-read row with the progress merged in + push of the retry message
  /\ wk["r"].pc = "store"
  /\ IF row.ver = wk["r"].snap.ver
     THEN /\ row' = [ver |-> row.ver + 1, prog |-> seen + 1, buf |-> wk["r"].snap.buf]
          /\ retry' = retry + 1
          /\ Go("r", "mark")
     ELSE \* ConcurrencyError, rolled back.  TransactionHelper.execute_atomic (persistence/transaction.py) treats it like a
          \* deadlock and re-submits the SAME object InnerRetries times (futile: the version cannot match any more); only
          \* then does the error reach retry_on_concurrency_error, whose closure reads the row afresh.
          /\ IF wk["r"].inner < InnerRetries
             THEN wk' = [wk EXCEPT !["r"].inner = @ + 1]
             ELSE /\ wk["r"].tries < MaxTries
                  /\ wk' = [wk EXCEPT !["r"].snap = row, !["r"].tries = @ + 1, !["r"].inner = 0]
          /\ UNCHANGED <<row, retry>>
  /\ UNCHANGED <<done, inq, seen>>

(* ---- writers: persistent SignalStage on a RUNNING stage -> buffered (stage row + processed mark in one commit) ---- *)
WStart(w) ==
  /\ w \in Writers /\ wk[w].pc = "start"
  /\ wk' = [wk EXCEPT ![w] = [pc |-> "store", snap |-> row, tries |-> 0, inner |-> 0]]
  /\ UNCHANGED <<row, retry, done, inq, seen>>

WStore(w) ==
  /\ w \in Writers /\ wk[w].pc = "store"
  /\ IF row.ver = wk[w].snap.ver
     THEN /\ row' = [ver |-> row.ver + 1, prog |-> wk[w].snap.prog, buf |-> wk[w].snap.buf + 1]
          /\ done' = done \cup {w}
          /\ Go(w, "mark")          \* the processor's own mark commit follows (INSERT OR IGNORE: no visible change)
     ELSE /\ wk[w].tries < MaxTries
          /\ wk' = [wk EXCEPT ![w].snap = row, ![w].tries = @ + 1]
          /\ UNCHANGED <<row, done>>
  /\ UNCHANGED <<retry, inq, seen>>

(* ---- processor tail ---- *)
Mark(w) == /\ wk[w].pc = "mark" /\ done' = done \cup {w} /\ Go(w, "ack") /\ UNCHANGED <<row, retry, inq, seen>>
Ack(w)  == /\ wk[w].pc = "ack" /\ inq' = inq \ {w} /\ Go(w, "end") /\ UNCHANGED <<row, retry, done, seen>>

Step(w) == (w = "r" /\ (RStart \/ RStore)) \/ WStart(w) \/ WStore(w) \/ Mark(w) \/ Ack(w)
Next == \E w \in All : Step(w)
Spec == Init /\ [][Next]_vars

AllDone == \A w \in All : wk[w].pc = "end"

(* C14: the progress attached to the transient error is durable exactly when the retry is queued, whatever the others wrote *)
ProgressWithRetry == (retry = 1) <=> (wk["r"].pc \in {"mark", "ack", "end"})
ProgressKept  == wk["r"].pc \in {"mark", "ack", "end"} => row.prog = seen + 1
ProgressFinal == AllDone => /\ row.prog = InitRow.prog + 1 /\ retry = 1
(* nobody's update is lost (the buffered signals are C18's business; here they witness that the CAS protects both sides) *)
NoLostUpdate  == AllDone => /\ row.buf = InitRow.buf + Cardinality(Writers)
                            /\ row.ver = InitRow.ver + Cardinality(Writers) + 1
NothingLeft   == AllDone => inq = {} /\ done = All
(* with MaxTries >= number of other writers nobody runs out of retries: no deadlock before AllDone *)
NoStarvation  == (~AllDone) => ENABLED Next
=============================================================================
