---- MODULE MC_Race ----
\* model-checking / export root for Race.tla: prints the initial state and every explored edge as JSON
EXTENDS Race, Json
Proj == [st |-> st, done |-> done, q |-> q, claims |-> claims, pcs |-> [w \in Workers |-> wk[w].pc], wk |-> wk, gh |-> gh]
Edge == PrintT(<<"EDGE", ToJson(Proj), ToJson(Proj')>>)
InitP == Init /\ PrintT(<<"INIT", ToJson(Proj)>>)
====
