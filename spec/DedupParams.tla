---------------------------- MODULE DedupParams ----------------------------
(* Sample of the module the harness generates: the hash functions that the  *)
(* real BloomDeduplicator induces on concrete ids, and a name for each.     *)
EXTENDS TLC
RealH == { ("i1" :> {0, 3} @@ "i2" :> {1} @@ "i3" :> {2, 4} @@ "i4" :> {0, 1}) }
HName(f) == IF f = ("i1" :> {0, 3} @@ "i2" :> {1} @@ "i3" :> {2, 4} @@ "i4" :> {0, 1}) THEN "h0" ELSE "?"
=============================================================================
