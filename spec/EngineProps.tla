----------------------------- MODULE EngineProps -----------------------------
(***************************************************************************)
(* The listed properties as TLA+ formulas over Engine's variables.  The    *)
(* same formulas are checked (a) by TLC on the model for small constants   *)
(* and (b) in every state of every execution recorded from the real engine *)
(* (Trace_Engine).  Ref / Ideal / Racy / ExecMax come from the generated   *)
(* module Program: Ref is the outcome of the fault-free in-order run, Ideal*)
(* the declarative outcome computed from the DAG and the scripts.          *)
(***************************************************************************)
EXTENDS Engine

Final        == Complete
ExplicitWait == \/ wf.status \in {"BUFFERED", "PAUSED"}
                \/ \E s \in DOMAIN st : st[s].status \in {"SUSPENDED", "PAUSED"}

AllowedFinal(s) == IF P.instk[s] > 0 THEN {"NOT_STARTED", "SUCCEEDED", "CANCELED", "SKIPPED"}   \* an instance added at run time (not in the reference run)
                   ELSE IF P.msref[s] # "" THEN {Ideal.st[s], "SKIPPED", "CANCELED", "NOT_STARTED"}   \* enabled or expired: depends on the schedule
                   ELSE IF s \in Racy THEN {Ideal.st[s], "CANCELED", "NOT_STARTED"}
                   ELSE IF Ref.st[s] = "ABSENT" THEN {"NOT_STARTED"}     \* a synthetic child the reference run never created
                   ELSE {Ref.st[s]}
(* a stage the reference run created (a builder's before / after child) exists, unless its parent never got that far *)
ChildExists(s) == \/ s \in DOMAIN st \/ Ref.st[s] = "ABSENT" \/ P.parent[s] = "" \/ P.parent[s] \in Racy
                  \/ P.parent[s] \notin DOMAIN st
                  \/ st[P.parent[s]].status \in {"NOT_STARTED", "CANCELED", "SKIPPED", "TERMINAL", "STOPPED"}
OutcomeEq == /\ wf.status = Ref.wf
             /\ \A s \in DOMAIN st : st[s].status \in AllowedFinal(s)
             /\ \A s \in Stages : ChildExists(s)

RECURSIVE SumExcess(_)
SumExcess(T) == IF T = {} THEN 0
                ELSE LET t == CHOOSE x \in T : TRUE
                     IN (IF Len(ledger[t]) > ExecMax[t] THEN Len(ledger[t]) - ExecMax[t] ELSE 0)
                        + SumExcess(T \ {t})
Excess == SumExcess(AllTasks)

-----------------------------------------------------------------------------
(* C01  crash anywhere + restart with recovery: same outcome, only the in-flight step repeats *)
C01_SameOutcome     == Quiescent => OutcomeEq
C01_ExecBound       == Excess <= cnt.crashes
C01_NothingStranded == Quiescent => (wf.status \in Final \/ ExplicitWait) /\ dlq = {}
(* ... including a request that was accepted: every instance the multi-instance stage has counted (WCP-15) exists and its
   StartStage was queued, once the worker is between two messages *)
C01_InstanceNotLost == Idle => \A s \in DOMAIN st : \A k \in 1..st[s].mi :
                          /\ InstRef(s, k) \in DOMAIN st
                          /\ <<"StartStage", InstRef(s, k), "", 1>> \in pushed

(* C02  redelivery / reordering: same outcome, one start per iteration, no re-execution *)
C02_SameOutcome == Quiescent => OutcomeEq
C02_StartOnce   == \A s \in Stages : gh.starts[s] <= gh.rearms[s] + 1
C02_NoReexec_A == \A t \in AllTasks : ledger'[t] # ledger[t] => t \notin gh.resulted
C02_NoReexec == [][C02_NoReexec_A]_vars
C02_ExecExact   == cnt.crashes = 0 => Excess = 0

(* C03  a stage never runs before its dependencies allow it.  JoinMet is the declarative join
   condition of the statement, written independently of Readiness. *)
ContUp(s) == {u \in P.req[s] : st[u].status \in Continuable}
JoinMet(s) ==
  LET U == P.req[s] C == ContUp(s) IN
  CASE U = {} -> TRUE
    [] P.join[s] \in {"DISCRIMINATOR", "MULTI_MERGE"} -> C # {}
    [] P.join[s] = "N_OF_M" /\ P.thr[s] > 0 -> Cardinality(C) >= P.thr[s]
    [] P.join[s] = "OR" /\ st[s].act # {"-"} -> (U \cap st[s].act) \subseteq C
    [] OTHER -> C = U
RECURSIVE AndAncestors(_)
AndAncestors(s) == IF P.join[s] \in {"AND", "OR"} \/ (P.join[s] = "N_OF_M" /\ P.thr[s] <= 0)
                   THEN P.req[s] \cup UNION {AndAncestors(u) : u \in P.req[s]}
                   ELSE {}
C03_StartsOnlyWhenAllowed_A ==
  \A s \in DOMAIN st : (s \in DOMAIN st' /\ st[s].status = "NOT_STARTED" /\ st'[s].status = "RUNNING")
        => (JoinMet(s) \/ st[s].bypass)
C03_StartsOnlyWhenAllowed == [][C03_StartsOnlyWhenAllowed_A]_vars
C03_ExecOnlyStarted_A ==
  \A t \in AllTasks : ledger'[t] # ledger[t] => st[StageOf(t)].status # "NOT_STARTED"
C03_ExecOnlyStarted == [][C03_ExecOnlyStarted_A]_vars
C03_NoRunBelowHalt_A ==
  \A s \in DOMAIN st : (s \in DOMAIN st' /\ st[s].status = "NOT_STARTED" /\ st'[s].status = "RUNNING"
                           /\ ~st[s].bypass /\ P.join[s] \in {"AND"})
        => \A u \in P.req[s] : st[u].status \notin Halt
C03_NoRunBelowHalt == [][C03_NoRunBelowHalt_A]_vars

(* C05  quiet means done *)
C05_QuietMeansDone      == Quiescent => (wf.status \in Final \/ ExplicitWait)
C05_SucceededIsHonest   == wf.status = "SUCCEEDED" =>
                             \A s \in TopLevel \cap DOMAIN st : st[s].status \in {"SUCCEEDED", "FAILED_CONTINUE", "SKIPPED"}
C05_FailureReported     == (Quiescent /\ \E s \in TopLevel \cap DOMAIN st : st[s].status = "TERMINAL")
                             => wf.status \in {"TERMINAL", "CANCELED"}
C05_NoRunningInFinished == (Quiescent /\ wf.status \in Final) => \A s \in DOMAIN st : st[s].status # "RUNNING"

(* C06  every durable status change is a legal transition; completed is final except re-arm by a jump *)
RearmStep == lbl'.name \in {"JumpApply", "RestartStage"}     \* a jump or an operator restart explicitly re-arms
C06_Legal_A ==
  /\ \A s \in DOMAIN st \cap DOMAIN st' :
        (st'[s].status # st[s].status) =>
            (CanTransition(st[s].status, st'[s].status) \/ (RearmStep /\ st'[s].status = "NOT_STARTED"))
  /\ \A t \in DOMAIN tk \cap DOMAIN tk' :
        (tk'[t].status # tk[t].status) =>
            (CanTransition(tk[t].status, tk'[t].status) \/ (RearmStep /\ tk'[t].status = "NOT_STARTED"))
  /\ ((wf'.status # wf.status) => (CanTransition(wf.status, wf'.status)
                                      \/ (lbl'.name = "RestartStage" /\ wf'.status = "RUNNING")))
C06_Legal == [][C06_Legal_A]_vars
C06_CompletedIsFinal_A ==
  /\ \A s \in DOMAIN st \cap DOMAIN st' :
        (st[s].status \in Complete /\ st'[s].status # st[s].status) => (RearmStep /\ st'[s].status = "NOT_STARTED")
  /\ \A t \in DOMAIN tk \cap DOMAIN tk' :
        (tk[t].status \in Complete /\ tk'[t].status # tk[t].status) => (RearmStep /\ tk'[t].status = "NOT_STARTED")
  /\ ((wf.status \in Complete) => (wf'.status = wf.status \/ (lbl'.name = "RestartStage" /\ wf'.status = "RUNNING")))
C06_CompletedIsFinal == [][C06_CompletedIsFinal_A]_vars

(* C09  a message whose handling committed is never handled again *)
C09_NoRehandle == wk.pc = "handle" => wk.mid \notin done

(* C10  recovery sweeps are harmless on a healthy run *)
C10_SweepHarmless == (Quiescent /\ cnt.crashes = 0) => (OutcomeEq /\ Excess = 0)
C10_NoExtraExec   == cnt.crashes = 0 => Excess = 0

(* C14  transient failures: bounded retries, saved progress kept *)
C14_Bounded == \A t \in AllTasks :
                 P.beh[t].k \in {"transient", "transientNoCtx"} =>
                   Len(ledger[t]) <= (MaxAttempts + cnt.crashes) * (gh.rearms[StageOf(t)] + 1)
C14_ProgressKept_A ==
  \A t \in AllTasks : ledger'[t] # ledger[t] =>
        (LET n == Len(ledger[t]) e == ledger'[t][n + 1] IN
          (n > 0) => (e.prog >= ledger[t][n].prog /\ e.prog <= ledger[t][n].prog + 1))
C14_ProgressKept == [][C14_ProgressKept_A]_vars
C14_ProgressExact_A ==
  \A t \in AllTasks : (ledger'[t] # ledger[t] /\ cnt.crashes = 0 /\ P.beh[t].k \in {"transient", "poll"}) =>
        (LET n == Len(ledger[t]) e == ledger'[t][n + 1] IN
          (n > 0 /\ ledger[t][n].prog < P.beh[t].n) => (e.prog = ledger[t][n].prog + 1))
C14_ProgressExact == [][C14_ProgressExact_A]_vars

(* C15  jump loops are bounded *)
C15_JumpBudget == \A s \in DOMAIN st : st[s].jumps <= P.maxJumps
DependOnly(t)  == Closure({t}) \ {t}
C15_RearmExact_A ==
  lbl'.name = "JumpApply" =>
       LET src == Cur.s tgt == Cur.target
           back == src = tgt \/ src \in Dependents(tgt)
           rearmed == {s \in DOMAIN st : st'[s].status = "NOT_STARTED" /\ (st[s].status # "NOT_STARTED" \/ s = tgt)}
           base == {tgt} \cup DependOnly(tgt) \cup (IF back THEN {src} ELSE {})
       IN rearmed \subseteq (base \cup UNION {Children(x) : x \in base})     \* and their synthetic children
          /\ tgt \in rearmed
C15_RearmExact == [][C15_RearmExact_A]_vars
C15_OncePerIteration == \A s \in Stages : gh.starts[s] <= gh.rearms[s] + 1

(* C17  after a cancel is accepted no further task starts and the workflow ends *)
C17_NoStartAfterCancel_A ==
  wf.canceled => ledger' = ledger
C17_NoStartAfterCancel == [][C17_NoStartAfterCancel_A]_vars
C17_CancelCompletes ==
  (Quiescent /\ wf.canceled) =>
     /\ wf.status \in Final
     /\ \A s \in gh.unfinishedAtCancel :     \* (a stage disabled by its own condition may end SKIPPED: it never runs either)
           st[s].status = "CANCELED" \/ (P.enabled[s] \in {"no", "expired"} /\ st[s].status = "SKIPPED")
     /\ (gh.unfinishedAtCancel # {} /\ ~\E s \in TopLevel \cap DOMAIN st : st[s].status \in {"TERMINAL", "STOPPED"})
          => wf.status = "CANCELED"

(* C11  mutex admits one running stage; a deferred choice has exactly one winner *)
C11_Mutex == \A s1, s2 \in DOMAIN st :
               (s1 # s2 /\ P.mutex[s1] # "" /\ P.mutex[s1] = P.mutex[s2])
                 => ~(st[s1].status = "RUNNING" /\ st[s2].status = "RUNNING")
ChoiceGroups == {P.choice[s] : s \in Stages} \ {""}
GroupOf(g)   == {s \in Stages : P.choice[s] = g}
C11_ChoiceAtMostOne == \A g \in ChoiceGroups : Cardinality({s \in GroupOf(g) : gh.starts[s] > 0}) <= 1
C11_ChoiceLosersCanceled ==
  Quiescent => \A g \in ChoiceGroups :
     (\E w \in GroupOf(g) : gh.starts[w] > 0) =>
        \A o \in GroupOf(g) \cap DOMAIN st : gh.starts[o] = 0 => st[o].status = "CANCELED"
C11_MutexWaiterRuns ==   \* a waiting stage does run once the holder finishes (no stage left waiting at quiescence)
  (Quiescent /\ wf.status = "SUCCEEDED") => \A s \in DOMAIN st : P.mutex[s] # "" => st[s].status # "NOT_STARTED"
C11_ClaimsOfLiveKept_A ==
  (lbl'.name = "ClaimSweep" /\ wf.status \notin Complete) => claims' = claims
C11_ClaimsOfLiveKept == [][C11_ClaimsOfLiveKept_A]_vars

(* C18  persistent signals are never lost; a suspended stage resumes once per signal *)
C18_StaysSuspended_A ==
  \A s \in DOMAIN st \cap DOMAIN st' :
     (st[s].status = "SUSPENDED" /\ st'[s].status # "SUSPENDED") => lbl'.name \in {"SignalDeliver", "CancelStage", "JumpApply"}
C18_StaysSuspended == [][C18_StaysSuspended_A]_vars
RECURSIVE SumBuf(_)
SumBuf(S) == IF S = {} THEN 0 ELSE LET s == CHOOSE x \in S : TRUE IN Len(st[s].buf) + SumBuf(S \ {s})
PendingSignals == Cardinality({m \in q : m.typ = "SignalStage" /\ m.pers /\ m.id \notin done})
C18_NeverLost == gh.sent = gh.consumed + SumBuf(DOMAIN st) + PendingSignals
C18_NotSittingOnSignal == Quiescent => \A s \in DOMAIN st : st[s].status = "SUSPENDED" => st[s].buf = <<>>
C18_ConsumedOnce == P.sigSame \/ \A i, j \in DOMAIN gh.consumedNames : i # j => gh.consumedNames[i] # gh.consumedNames[j]
C18_ResumeOncePerSignal == gh.resumes <= cnt.signals /\ gh.consumed <= gh.sent
C18_TransientNoEffect_A == lbl'.name = "SignalDrop" => (st' = st /\ tk' = tk)
C18_TransientNoEffect == [][C18_TransientNoEffect_A]_vars
C18_SawSignalOnlyIfDelivered ==
  \A t \in AllTasks : P.beh[t].k = "suspend" =>
     Cardinality({ledger[t][i].sig : i \in DOMAIN ledger[t]} \ {""}) <= gh.resumes * (gh.rearms[StageOf(t)] + 1) + cnt.crashes
-----------------------------------------------------------------------------
(* dispatch by name: lets a run evaluate exactly the formulas named in CheckProps (Program.tla) *)
SP(n) ==
  CASE n = "C01_SameOutcome" -> C01_SameOutcome
    [] n = "C01_ExecBound" -> C01_ExecBound
    [] n = "C01_NothingStranded" -> C01_NothingStranded
    [] n = "C01_InstanceNotLost" -> C01_InstanceNotLost
    [] n = "C02_SameOutcome" -> C02_SameOutcome
    [] n = "C02_StartOnce" -> C02_StartOnce
    [] n = "C02_ExecExact" -> C02_ExecExact
    [] n = "C05_QuietMeansDone" -> C05_QuietMeansDone
    [] n = "C05_SucceededIsHonest" -> C05_SucceededIsHonest
    [] n = "C05_FailureReported" -> C05_FailureReported
    [] n = "C05_NoRunningInFinished" -> C05_NoRunningInFinished
    [] n = "C09_NoRehandle" -> C09_NoRehandle
    [] n = "C10_SweepHarmless" -> C10_SweepHarmless
    [] n = "C10_NoExtraExec" -> C10_NoExtraExec
    [] n = "C14_Bounded" -> C14_Bounded
    [] n = "C15_JumpBudget" -> C15_JumpBudget
    [] n = "C15_OncePerIteration" -> C15_OncePerIteration
    [] n = "C17_CancelCompletes" -> C17_CancelCompletes
    [] n = "C11_Mutex" -> C11_Mutex
    [] n = "C11_ChoiceAtMostOne" -> C11_ChoiceAtMostOne
    [] n = "C11_ChoiceLosersCanceled" -> C11_ChoiceLosersCanceled
    [] n = "C11_MutexWaiterRuns" -> C11_MutexWaiterRuns
    [] n = "C18_NeverLost" -> C18_NeverLost
    [] n = "C18_NotSittingOnSignal" -> C18_NotSittingOnSignal
    [] n = "C18_ConsumedOnce" -> C18_ConsumedOnce
    [] n = "C18_ResumeOncePerSignal" -> C18_ResumeOncePerSignal
    [] n = "C18_SawSignalOnlyIfDelivered" -> C18_SawSignalOnlyIfDelivered
    [] OTHER -> TRUE
AP(n) ==
  CASE n = "C02_NoReexec" -> C02_NoReexec_A
    [] n = "C03_StartsOnlyWhenAllowed" -> C03_StartsOnlyWhenAllowed_A
    [] n = "C03_ExecOnlyStarted" -> C03_ExecOnlyStarted_A
    [] n = "C03_NoRunBelowHalt" -> C03_NoRunBelowHalt_A
    [] n = "C06_Legal" -> C06_Legal_A
    [] n = "C06_CompletedIsFinal" -> C06_CompletedIsFinal_A
    [] n = "C14_ProgressKept" -> C14_ProgressKept_A
    [] n = "C14_ProgressExact" -> C14_ProgressExact_A
    [] n = "C15_RearmExact" -> C15_RearmExact_A
    [] n = "C17_NoStartAfterCancel" -> C17_NoStartAfterCancel_A
    [] n = "C11_ClaimsOfLiveKept" -> C11_ClaimsOfLiveKept_A
    [] n = "C18_StaysSuspended" -> C18_StaysSuspended_A
    [] n = "C18_TransientNoEffect" -> C18_TransientNoEffect_A
    [] OTHER -> TRUE
StatePropNames  == {"C01_SameOutcome", "C01_ExecBound", "C01_NothingStranded", "C01_InstanceNotLost", "C02_SameOutcome", "C02_StartOnce", "C02_ExecExact", "C05_QuietMeansDone", "C05_SucceededIsHonest", "C05_FailureReported", "C05_NoRunningInFinished", "C09_NoRehandle", "C10_SweepHarmless", "C10_NoExtraExec", "C14_Bounded", "C15_JumpBudget", "C15_OncePerIteration", "C17_CancelCompletes", "C11_Mutex", "C11_ChoiceAtMostOne", "C11_ChoiceLosersCanceled", "C11_MutexWaiterRuns", "C18_NeverLost", "C18_NotSittingOnSignal", "C18_ConsumedOnce", "C18_ResumeOncePerSignal", "C18_SawSignalOnlyIfDelivered"}
ActionPropNames == {"C02_NoReexec", "C03_StartsOnlyWhenAllowed", "C03_ExecOnlyStarted", "C03_NoRunBelowHalt", "C06_Legal", "C06_CompletedIsFinal", "C14_ProgressKept", "C14_ProgressExact", "C15_RearmExact", "C17_NoStartAfterCancel", "C11_ClaimsOfLiveKept", "C18_StaysSuspended", "C18_TransientNoEffect"}
FailedState  == {n \in CheckProps \cap StatePropNames : ~SP(n)}
=============================================================================
