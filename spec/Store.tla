------------------------------- MODULE Store -------------------------------
(***************************************************************************)
(* Optimistic locking of the SQLite workflow store, at STATEMENT grain     *)
(* (property C07).  One stage row and its task rows; two or three writers, *)
(* each a thread with its own connection, each performing                  *)
(*                                                                         *)
(*     read stage -> modify the object in memory -> save                   *)
(*                                                                         *)
(* through the public store API, optionally wrapped in                     *)
(* StabilizeHandler.retry_on_concurrency_error.                            *)
(*                                                                         *)
(* One action per SQL statement / commit / rollback of                     *)
(*   persistence/sqlite/store/stage_ops.py   retrieve_stage, store_stage   *)
(*   persistence/sqlite/transaction.py       AtomicTransaction.store_stage *)
(*   persistence/sqlite/store/store.py       SqliteWorkflowStore.transaction*)
(*   persistence/sqlite/helpers.py           upsert_task                   *)
(*   handlers/base.py                        retry_on_concurrency_error    *)
(*                                                                         *)
(*   pc    statement the writer issues next                                *)
(*   ----  ------------------------------------------------------------    *)
(*   rs    SELECT * FROM stage_executions WHERE id       (retrieve_stage)  *)
(*   rt    SELECT * FROM task_executions WHERE stage_id  (retrieve_stage)  *)
(*         ... the caller modifies the object in memory ...                *)
(*   ex    SELECT id FROM stage_executions WHERE id      (store_stage)     *)
(*   us    UPDATE stage_executions .. WHERE id AND version [AND status]    *)
(*   ut    UPDATE task_executions .. WHERE id AND version  (upsert_task)   *)
(*   it    INSERT INTO task_executions                     (upsert_task)   *)
(*   co    conn.commit()    end of store_stage / of `with transaction()`   *)
(*   rb    conn.rollback()  `except Exception` of transaction()            *)
(*   dc    the next commit on a connection that a FAILED plain store_stage *)
(*         left inside an open transaction (see "Deviation" below)         *)
(*                                                                         *)
(* SQLite's locking discipline (probed, DESIGN 4.6): the first DML of a    *)
(* connection opens a write transaction which excludes every other writer  *)
(* until commit / rollback (`lock`); a blocked writer waits (its statement *)
(* is simply not enabled) or, with AllowBusy, times out with 'database is  *)
(* locked'.  Reads are single-statement snapshots: the holder reads its    *)
(* own uncommitted image `work`, everybody else the committed image `db`.  *)
(*                                                                         *)
(* Deviation named deliberately: plain store_stage has no rollback on the  *)
(* error path.  When it raises, the connection stays inside its write      *)
(* transaction: whatever statements succeeded before the raise are still   *)
(* pending and are published by the NEXT commit on that thread's           *)
(* connection (in the engine: queue.reschedule / mark_message_processed /  *)
(* the retry's own commit).  The model keeps that behaviour (action        *)
(* DanglingCommit, and a retry running inside the open transaction); the   *)
(* ghost `phantom` records a failed save whose pending writes became       *)
(* durable.  With the version checks intact nothing is ever pending at a   *)
(* raise (the stage UPDATE is the first DML and the only one that can      *)
(* miss), which is exactly what NoPhantom states and TLC confirms.         *)
(*                                                                         *)
(* The five switches at the end REMOVE one mechanism each; they are TRUE   *)
(* in the design.  The check model-checks the design (all TRUE: every      *)
(* property holds) and each removal (the named property must FAIL - the    *)
(* properties are not vacuous), and replays the design's behaviours on the *)
(* real store, where a code mutation of the same kind shows up as a        *)
(* disagreement with the prediction.                                       *)
(***************************************************************************)
EXTENDS Naturals, Sequences, FiniteSets, TLC

CONSTANTS
  Writers,         \* writer ids, a subset of 2..4 (1 is the harness that created the rows)
  Transactional,   \* FALSE: SqliteWorkflowStore.store_stage ; TRUE: AtomicTransaction.store_stage in `with store.transaction()`
  UsePhase,        \* TRUE: the writer passes expected_phase = the status it read (phase-aware CAS)
  Retries,         \* retry_on_concurrency_error: re-runs after a ConcurrencyError (0 = the bare operation)
  AddsCtx,         \* writers that add a context key of their own (all of them, except in the Guarded pair)
  AddsOut,         \* writers that also add an outputs key of their own
  SetsStatus,      \* writers that also change the stage status
  SetsTask,        \* writers that also change the status of task "t1"
  AddsTask,        \* writers that also append a new task (upsert_task takes its INSERT path)
  AuxStage,        \* transactional only: each writer first saves a private stage row a<w> in the SAME transaction
  Guarded,         \* TRUE: the writers are the CancelStage (4) and CompleteTask (3) handlers, whose modification - and
                   \* whether they save at all - depends on what they read (see Skip / Modify)
  InitStatus,      \* initial status of the stage row and of task t1
  AllowBusy,       \* a writer blocked at its first DML may time out ('database is locked') instead of waiting
  StageVersionCheck,   \* `AND version = :version` of the stage UPDATE
  TaskVersionCheck,    \* `AND version = :version` of the task UPDATE
  MapIntegrityError,   \* sqlite3.IntegrityError of the task INSERT is raised as ConcurrencyError
  FreshRetry,          \* the retried function re-reads the stage (FALSE: it re-uses the stale object)
  RollbackVersions     \* AtomicTransaction.rollback_versions restores the in-memory versions

VARIABLES
  db,       \* committed image  [st |-> [status, ver, ctx, out], tk |-> [task id -> [status, ver]],
            \*                   aux |-> [writer -> [ver, ctx]]]  (aux: one private stage row per writer)
  work,     \* image seen by the holder of the write lock (= db when nobody holds it)
  lock,     \* 0 or the writer whose connection is inside a write transaction
  wr,       \* per writer: pc, in-memory object, bookkeeping of the running attempt, result
  hist,     \* ghost: the saves that reported success, in commit order
  phantom,  \* ghost: writers one of whose FAILED saves became durable
  nco,      \* ghost: number of commits that changed db (logical clock for RetriedOnFresh)
  lbl       \* label of the last step (what the replayer executes)

vars == <<db, work, lock, wr, hist, phantom, nco, lbl>>

-----------------------------------------------------------------------------
(* Names used on both sides of the binding *)
CtxKey(w)   == <<"k1", "k2", "k3", "k4">>[w]
OutKey(w)   == <<"o1", "o2", "o3", "o4">>[w]
StatusOf(w) == <<"NOT_STARTED", "RUNNING", "SUCCEEDED", "CANCELED">>[w]
TStatusOf(w) == <<"NOT_STARTED", "RUNNING", "SUCCEEDED", "CANCELED">>[w]
NewTask(w)  == <<"n1", "n2", "n3", "n4">>[w]
Rank(t)     == CASE t = "t1" -> 1 [] t = "n2" -> 2 [] t = "n3" -> 3 [] t = "n4" -> 4 [] OTHER -> 9

RECURSIVE Sorted(_)
Sorted(S) == IF S = {} THEN <<>>                       \* ORDER BY id
             ELSE LET m == CHOOSE x \in S : \A y \in S : Rank(x) <= Rank(y)
                  IN  <<m>> \o Sorted(S \ {m})

InitDb == [st |-> [status |-> InitStatus, ver |-> 0, ctx |-> {"k1"}, out |-> {}],
           tk |-> ("t1" :> [status |-> InitStatus, ver |-> 0]),
           aux |-> [w \in Writers |-> [ver |-> 0, ctx |-> {"k1"}]]]

NoObj  == [st |-> InitDb.st, tk |-> InitDb.tk, order |-> <<>>]
UseAux == AuxStage /\ Transactional
FirstPc == IF UseAux THEN "ra" ELSE "rs"          \* first statement of the (re-)read
SavePc  == IF UseAux THEN "ua" ELSE "ex"          \* first parked statement of the save
SavePcDml == IF UseAux THEN "ua" ELSE "us"        \* first DML of the save (takes the write lock)

(* The caller's modification of the object it read: a context key of its own, optionally an     *)
(* outputs key, the stage status, the status of t1, a new task appended to stage.tasks.          *)
(* Guarded pair (handlers/cancel_stage.py, handlers/complete_task.py): what the handler does depends on *)
(* the state it read.  CancelStage (writer 4): nothing if the stage is complete, else stage := CANCELED  *)
(* and every NOT_STARTED / RUNNING task := CANCELED.  CompleteTask (writer 3): nothing unless t1 is     *)
(* RUNNING, else t1 := SUCCEEDED.  "Nothing" = the handler returns without saving (Skip).               *)
Complete == {"SUCCEEDED", "CANCELED", "TERMINAL", "SKIPPED", "STOPPED", "FAILED_CONTINUE"}
Skip(w, o) == Guarded /\ IF w = 4 THEN o.st.status \in Complete ELSE o.tk["t1"].status # "RUNNING"
TaskGuard(w, o) == ~Guarded \/ (IF w = 4 THEN o.tk["t1"].status \in {"NOT_STARTED", "RUNNING"} ELSE TRUE)

Modify(w, o) ==
  LET st1 == [o.st EXCEPT !.ctx = IF w \in AddsCtx THEN @ \cup {CtxKey(w)} ELSE @,
                          !.out = IF w \in AddsOut THEN @ \cup {OutKey(w)} ELSE @,
                          !.status = IF w \in SetsStatus THEN StatusOf(w) ELSE @]
      tk1 == IF w \in SetsTask /\ TaskGuard(w, o) THEN [o.tk EXCEPT !["t1"].status = TStatusOf(w)] ELSE o.tk
      add == w \in AddsTask /\ NewTask(w) \notin DOMAIN o.tk
      tk2 == IF add THEN tk1 @@ (NewTask(w) :> [status |-> "NOT_STARTED", ver |-> 0]) ELSE tk1
  IN  [st |-> st1, tk |-> tk2, order |-> IF add THEN Append(o.order, NewTask(w)) ELSE o.order]

View(w) == IF lock = w THEN work ELSE db

-----------------------------------------------------------------------------
Init ==
  /\ db = InitDb /\ work = InitDb /\ lock = 0
  /\ wr = [w \in Writers |->
             [pc |-> FirstPc, obj |-> NoObj, aobj |-> [ver |-> 0, ctx |-> {}], phase |-> "", todo |-> <<>>, saved |-> <<>>, base |-> 0,
              att |-> 1, res |-> "none", exc |-> "", readAt |-> 0, failAt |-> 0, skipped |-> FALSE]]
  /\ hist = <<>> /\ phantom = {} /\ nco = 0
  /\ lbl = [w |-> 0, a |-> "init", r |-> ""]

Lbl(w, a, r) == lbl' = [w |-> w, a |-> a, r |-> r]

(* ---------------- retrieve_stage: two statements, no transaction ---------------- *)
RdAux(w) ==                      \* retrieve_stage(a<w>): the writer's private stage (UseAux only)
  /\ wr[w].pc = "ra"
  /\ wr' = [wr EXCEPT ![w].pc = "rs",
                      ![w].aobj = [ver |-> View(w).aux[w].ver, ctx |-> View(w).aux[w].ctx \cup {CtxKey(w)}]]
  /\ Lbl(w, "ra", "")
  /\ UNCHANGED <<db, work, lock, hist, phantom, nco>>

RdStage(w) ==
  /\ wr[w].pc = "rs"
  /\ wr' = [wr EXCEPT ![w].pc = "rt", ![w].obj.st = View(w).st, ![w].readAt = nco]
  /\ Lbl(w, "rs", "")
  /\ UNCHANGED <<db, work, lock, hist, phantom, nco>>

RdTasks(w) ==
  /\ wr[w].pc = "rt"
  /\ LET read == [st |-> wr[w].obj.st, tk |-> View(w).tk, order |-> Sorted(DOMAIN View(w).tk)]
         o    == Modify(w, read)
     IN  IF Skip(w, read)
         THEN /\ wr' = [wr EXCEPT ![w].pc = "done", ![w].obj = read, ![w].res = "ok", ![w].skipped = TRUE]
              /\ Lbl(w, "rt", "skip")
         ELSE /\ wr' = [wr EXCEPT ![w].pc = SavePc, ![w].obj = o, ![w].phase = read.st.status]
              /\ Lbl(w, "rt", "")
  /\ UNCHANGED <<db, work, lock, hist, phantom, nco>>

(* ---------------- store_stage ---------------- *)
Exists(w) ==                     \* the stage row always exists here (insert_stage is not a contended path)
  /\ wr[w].pc = "ex"
  /\ wr' = [wr EXCEPT ![w].pc = "us"]
  /\ Lbl(w, "ex", "")
  /\ UNCHANGED <<db, work, lock, hist, phantom, nco>>

(* How an attempt ends with exception e, once the connection is where the code leaves it.        *)
(* retry_on_concurrency_error re-runs the function only for ConcurrencyError.                    *)
EndAttempt(rec, e, holds) ==
  IF e = "CE" /\ rec.att <= Retries
  THEN [rec EXCEPT !.att = @ + 1, !.pc = IF FreshRetry THEN FirstPc ELSE SavePc, !.exc = "", !.failAt = nco,
                   !.saved = <<>>]
  ELSE [rec EXCEPT !.res = e, !.exc = "", !.failAt = nco, !.saved = <<>>,
                   !.pc = IF ~Transactional /\ holds THEN "dc" ELSE "done"]

(* A statement of store_stage raises e.  Transactional: the context manager rolls back next.     *)
(* Plain: the exception leaves store_stage with the write transaction still open.                *)
Raise(w, rec, e) ==
  IF Transactional THEN [rec EXCEPT !.pc = "rb", !.exc = e]
  ELSE EndAttempt(rec, e, TRUE)

UpdAux(w) ==                     \* txn.store_stage(a<w>): first DML of the transaction; the row is private,
  /\ wr[w].pc = "ua"             \* so it misses only if the in-memory version is wrong (stale object)
  /\ lock \in {0, w}
  /\ lock' = w
  /\ LET cur == work.aux[w]
         hit == StageVersionCheck => cur.ver = wr[w].aobj.ver
     IN IF hit
        THEN /\ work' = [work EXCEPT !.aux[w] = [ver |-> cur.ver + 1, ctx |-> wr[w].aobj.ctx]]
             /\ wr' = [wr EXCEPT ![w].aobj.ver = @ + 1, ![w].pc = "ex",
                                 ![w].saved = <<[k |-> "ax", t |-> "", v |-> wr[w].aobj.ver]>>]
             /\ Lbl(w, "ua", "hit")
        ELSE /\ work' = work
             /\ wr' = [wr EXCEPT ![w] = Raise(w, wr[w], "CE")]
             /\ Lbl(w, "ua", "miss")
  /\ UNCHANGED <<db, hist, phantom, nco>>

UpdStage(w) ==
  /\ wr[w].pc = "us"
  /\ lock \in {0, w}                                   \* otherwise SQLite makes the statement wait
  /\ lock' = w
  /\ LET cur == work.st
         o   == wr[w].obj
         hit == /\ StageVersionCheck => cur.ver = o.st.ver
                /\ UsePhase => cur.status = wr[w].phase
     IN IF hit
        THEN /\ work' = [work EXCEPT !.st = [status |-> o.st.status, ver |-> cur.ver + 1,
                                             ctx |-> o.st.ctx, out |-> o.st.out]]
             /\ wr' = [wr EXCEPT ![w].obj.st.ver = @ + 1,          \* stage.version += 1
                                 ![w].base = o.st.ver,
                                 ![w].saved = Append(@, [k |-> "st", t |-> "", v |-> o.st.ver]),
                                 ![w].todo = o.order,
                                 ![w].pc = IF o.order = <<>> THEN "co" ELSE "ut"]
             /\ Lbl(w, "us", "hit")
        ELSE /\ work' = work
             /\ wr' = [wr EXCEPT ![w] = Raise(w, wr[w], "CE")]      \* rowcount 0 -> ConcurrencyError
             /\ Lbl(w, "us", "miss")
  /\ UNCHANGED <<db, hist, phantom, nco>>

Advance(rec) == [rec EXCEPT !.todo = Tail(@), !.pc = IF Len(rec.todo) = 1 THEN "co" ELSE "ut"]

UpdTask(w) ==
  /\ wr[w].pc = "ut" /\ lock = w
  /\ LET t   == Head(wr[w].todo)
         o   == wr[w].obj
         hit == t \in DOMAIN work.tk /\ (TaskVersionCheck => work.tk[t].ver = o.tk[t].ver)
         rec == [wr[w] EXCEPT !.saved = Append(@, [k |-> "tk", t |-> t, v |-> o.tk[t].ver])]
     IN IF hit
        THEN /\ work' = [work EXCEPT !.tk[t] = [status |-> o.tk[t].status, ver |-> @.ver + 1]]
             /\ wr' = [wr EXCEPT ![w] = Advance([rec EXCEPT !.obj.tk[t].ver = @ + 1])]   \* task.version += 1
             /\ Lbl(w, "ut", "hit")
        ELSE /\ work' = work
             /\ wr' = [wr EXCEPT ![w] = [rec EXCEPT !.pc = "it"]]   \* rowcount 0 -> try the INSERT
             /\ Lbl(w, "ut", "miss")
  /\ UNCHANGED <<db, lock, hist, phantom, nco>>

InsTask(w) ==
  /\ wr[w].pc = "it" /\ lock = w
  /\ LET t == Head(wr[w].todo)
         o == wr[w].obj
     IN IF t \notin DOMAIN work.tk
        THEN /\ work' = [work EXCEPT !.tk = @ @@ (t :> [status |-> o.tk[t].status, ver |-> 0])]
             /\ wr' = [wr EXCEPT ![w] = Advance(wr[w])]              \* in-memory version stays 0
             /\ Lbl(w, "it", "ok")
        ELSE /\ work' = work                                          \* PRIMARY KEY -> sqlite3.IntegrityError
             /\ wr' = [wr EXCEPT ![w] = Raise(w, wr[w], IF MapIntegrityError THEN "CE" ELSE "IntegrityError")]
             /\ Lbl(w, "it", "dup")
  /\ UNCHANGED <<db, lock, hist, phantom, nco>>

Commit(w) ==                     \* conn.commit() of store_stage / of the transaction context manager
  /\ wr[w].pc = "co" /\ lock = w
  /\ db' = work /\ work' = work /\ lock' = 0
  /\ hist' = Append(hist, [w |-> w, att |-> wr[w].att, base |-> wr[w].base])
  /\ nco' = nco + 1
  /\ wr' = [wr EXCEPT ![w].pc = "done", ![w].res = "ok"]
  /\ Lbl(w, "co", "")
  /\ UNCHANGED phantom

RECURSIVE Restore(_, _)
Restore(o, saved) ==             \* rollback_versions: stage.version / task.version := the recorded originals
  IF saved = <<>> THEN o
  ELSE LET h == Head(saved)
           o1 == IF h.k = "st" THEN [o EXCEPT !.st.ver = h.v]
                 ELSE IF h.k = "tk" THEN [o EXCEPT !.tk[h.t].ver = h.v] ELSE o
       IN  Restore(o1, Tail(saved))
RestoreAux(a, saved) == IF saved # <<>> /\ Head(saved).k = "ax" THEN [a EXCEPT !.ver = Head(saved).v] ELSE a

Rollback(w) ==                   \* `except Exception: conn.rollback(); txn.rollback_versions(); raise`
  /\ wr[w].pc = "rb" /\ Transactional
  /\ work' = (IF lock = w THEN db ELSE work)          \* (after a busy time-out somebody else holds the lock)
  /\ lock' = (IF lock = w THEN 0 ELSE lock)
  /\ LET o1  == IF RollbackVersions THEN Restore(wr[w].obj, wr[w].saved) ELSE wr[w].obj
         a1  == IF RollbackVersions THEN RestoreAux(wr[w].aobj, wr[w].saved) ELSE wr[w].aobj
         rec == [wr[w] EXCEPT !.obj = o1, !.aobj = a1, !.saved = <<>>]
     IN  wr' = [wr EXCEPT ![w] = EndAttempt(rec, wr[w].exc, FALSE)]
  /\ Lbl(w, "rb", "")
  /\ UNCHANGED <<db, hist, phantom, nco>>

DanglingCommit(w) ==             \* plain variant: the next commit on the connection of a failed save
  /\ wr[w].pc = "dc" /\ ~Transactional
  /\ lock \in {0, w}             \* the commit follows a DML of its own (INSERT processed_messages / UPDATE queue row)
  /\ IF lock = w
     THEN /\ db' = work /\ work' = work /\ lock' = 0
          /\ phantom' = IF work # db THEN phantom \cup {w} ELSE phantom
          /\ nco' = IF work # db THEN nco + 1 ELSE nco
     ELSE UNCHANGED <<db, work, lock, phantom, nco>>
  /\ wr' = [wr EXCEPT ![w].pc = "done"]
  /\ Lbl(w, "dc", "")
  /\ UNCHANGED hist

Busy(w) ==                       \* busy_timeout expired: sqlite3.OperationalError('database is locked')
  /\ AllowBusy /\ wr[w].pc = SavePcDml /\ lock \notin {0, w}
  /\ wr' = [wr EXCEPT ![w] = IF Transactional THEN [@ EXCEPT !.pc = "rb", !.exc = "locked"]
                             ELSE [@ EXCEPT !.pc = "dc", !.res = "locked"]]
  /\ Lbl(w, SavePcDml, "busy")
  /\ UNCHANGED <<db, work, lock, hist, phantom, nco>>

Step(w) == \/ RdAux(w) \/ UpdAux(w) \/ RdStage(w) \/ RdTasks(w) \/ Exists(w) \/ UpdStage(w) \/ UpdTask(w) \/ InsTask(w)
           \/ Commit(w) \/ Rollback(w) \/ DanglingCommit(w) \/ Busy(w)
Next == \E w \in Writers : Step(w)
Spec == Init /\ [][Next]_vars

AllDone == \A w \in Writers : wr[w].pc = "done"

-----------------------------------------------------------------------------
(* Properties (C07) *)

TypeOK ==
  /\ lock \in Writers \cup {0}
  /\ lock = 0 => work = db
  /\ \A w \in Writers : wr[w].res \in {"none", "ok", "CE", "locked", "IntegrityError"}

(* At most one successful save per (stage, base version). *)
OneWinnerPerVersion ==
  \A i, j \in DOMAIN hist : i # j => hist[i].base # hist[j].base

(* The committed rows equal the fold, in commit order, of the modifications that reported success: *)
(* every acknowledged write survives and nothing else got in.                                      *)
FoldStep(d, w) ==
  LET o  == Modify(w, [st |-> d.st, tk |-> d.tk, order |-> <<>>])
      tk == [t \in DOMAIN o.tk |-> IF t \in DOMAIN d.tk THEN [o.tk[t] EXCEPT !.ver = @ + 1] ELSE o.tk[t]]
  IN  [st |-> [o.st EXCEPT !.ver = @ + 1], tk |-> tk,
       aux |-> IF UseAux THEN [d.aux EXCEPT ![w] = [ver |-> @.ver + 1, ctx |-> @.ctx \cup {CtxKey(w)}]] ELSE d.aux]
RECURSIVE Fold(_, _)
Fold(d, h) == IF h = <<>> THEN d ELSE Fold(FoldStep(d, Head(h).w), Tail(h))
NoLostUpdate == db = Fold(InitDb, hist)

(* Successive winners build on each other: the i-th successful save was based on version i-1. *)
VersionChain == \A i \in DOMAIN hist : hist[i].base = i - 1

(* A writer whose save is not in the history was told so, with a ConcurrencyError (or, if busy     *)
(* time-outs are allowed, 'database is locked'); success is never reported for a save that lost.   *)
LoserSeesError ==
  \A w \in Writers : wr[w].pc = "done" =>
     /\ (wr[w].res = "ok") <=> (wr[w].skipped \/ \E i \in DOMAIN hist : hist[i].w = w)
     /\ wr[w].res \in {"ok", "CE"} \cup (IF AllowBusy THEN {"locked"} ELSE {})

(* No failed save ever becomes durable (half-applied plain store_stage published by a later commit). *)
NoPhantom == phantom = {}

(* A retry works on data read after the failure it retries. *)
RetriedOnFresh ==
  \A w \in Writers : (wr[w].att > 1 /\ wr[w].pc \in {"ex", "us", "ut", "it", "co"}) => wr[w].readAt >= wr[w].failAt

(* After a rolled-back transactional save the in-memory versions are the ones that were read. *)
VersionsRestored ==
  \A w \in Writers : (Transactional /\ wr[w].pc = "done" /\ wr[w].res # "ok") =>
     /\ wr[w].obj.st.ver <= db.st.ver
     /\ UseAux => wr[w].aobj.ver = db.aux[w].ver
     /\ \A t \in DOMAIN wr[w].obj.tk : t \in DOMAIN db.tk => wr[w].obj.tk[t].ver <= db.tk[t].ver

(* With at least |Writers|-1 retries (and no time-outs) every writer eventually wins once, so the   *)
(* final row carries every writer's key.                                                            *)
RetryWins ==
  (AllDone /\ ~AllowBusy /\ Retries >= Cardinality(Writers) - 1) =>
     /\ \A w \in Writers : wr[w].res = "ok"
     /\ db.st.ctx = {"k1"} \cup {CtxKey(w) : w \in AddsCtx}

(* Exactly one writer wins when nobody retries and all read the same version first. *)
SomeoneWins == AllDone /\ ~AllowBusy => Len(hist) >= 1

(* Guarded pair: whichever way the race goes, the stage ends CANCELED, and the task ends SUCCEEDED exactly *)
(* if its completion was saved (then never overwritten by the cancel) and CANCELED otherwise.             *)
CancelVsComplete ==
  (Guarded /\ AllDone /\ ~AllowBusy /\ Retries >= 1) =>
     /\ db.st.status = "CANCELED"
     /\ db.tk["t1"].status = IF \E i \in DOMAIN hist : hist[i].w = 3 THEN "SUCCEEDED" ELSE "CANCELED"
=============================================================================
