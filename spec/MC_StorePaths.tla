----------------------------- MODULE MC_StorePaths ----------------------------
(***************************************************************************)
(* Behaviour export of Store (C07) for the spec -> code replay.            *)
(* (Model checking proper uses Store itself as root: INIT Init, NEXT Next, *)
(* the property formulas as INVARIANTs; cfgs are written by                *)
(* harness/check_store.py.)                                                *)
(*                                                                         *)
(* The history variable `path` records, per step, the label (writer,       *)
(* statement, outcome of the statement), the statement the writer issues   *)
(* next, the result it has reported so far, its in-memory versions and the *)
(* committed image.  Every complete behaviour is printed once, when all    *)
(* writers are done.  With `path` in the state no two behaviours share a   *)
(* state, so TLC enumerates exactly the statement interleavings (or, with  *)
(* -simulate, samples them).                                               *)
(* Reduced == while a connection holds the write lock only its owner moves *)
(* (sound: the others could only read, and they read `db`, which does not  *)
(* change before the commit) - used for the exhaustive three-writer runs.  *)
(***************************************************************************)
EXTENDS Store, Json

VARIABLE path

Obs == [w |-> lbl.w, a |-> lbl.a, r |-> lbl.r,
        pc |-> wr[lbl.w].pc, res |-> wr[lbl.w].res, att |-> wr[lbl.w].att,
        ov |-> wr[lbl.w].obj.st.ver, av |-> wr[lbl.w].aobj.ver,
        tv |-> [t \in DOMAIN wr[lbl.w].obj.tk |-> wr[lbl.w].obj.tk[t].ver],
        lock |-> lock,
        db |-> IF lbl.a \in {"co", "dc"} THEN db ELSE [same |-> TRUE]]   \* db changes at commits only

PInit == Init /\ path = <<>>
PNext == Next /\ path' = Append(path, Obs')

Reduced == lock # 0 => lbl'.w = lock

Final == [res |-> [w \in Writers |-> wr[w].res], db |-> db, hist |-> hist, phantom |-> phantom]
Export == AllDone => PrintT(<<"BEH", ToJson([steps |-> path, final |-> Final])>>)
=============================================================================
