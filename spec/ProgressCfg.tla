---- MODULE ProgressCfg ----
\* sample of the generated configuration module (harness/check_progress.py writes the real one per run)
EXTENDS TLC
Writers == {"s1"}
InitRow == [ver |-> 3, prog |-> 0, buf |-> 0]
MaxTries == 2
InnerRetries == 5
====
