----------------------------- MODULE MC_Events -----------------------------
(***************************************************************************)
(* Model-checking root for Events (C12, C13).  The queue is not modelled:  *)
(* the environment starts any handler whose guard holds (any delivery      *)
(* order; after a Crash the same handler may be started again = the        *)
(* redelivery of its un-acked message), a Crash may fall between any two   *)
(* steps (in particular between an event append and its commit, between a  *)
(* commit and the out-of-transaction recording that follows or precedes    *)
(* it, between a commit and the deferred publication) and a completion     *)
(* transaction may be rolled back before or after its event append.        *)
(*                                                                         *)
(* Formulas named in CheckProps are evaluated in every state; a failure is *)
(* PRINTED with the state and exploration is pruned behind it, so TLC      *)
(* keeps covering every other behaviour.                                   *)
(***************************************************************************)
EXTENDS Events, Json, MC_EventsParams

(* MC_EventsParams (generated): Programs, CheckProps, MaxDepth *)

Sum(f, S) == LET RECURSIVE Go(_) Go(T) == IF T = {} THEN 0 ELSE LET x == CHOOSE y \in T : TRUE IN f[x] + Go(T \ {x}) IN Go(S)
SkipsUsed   == Sum([s \in Stages |-> Cnt(done.all, <<s, "SKIPPED">>)], Stages)
CancelsUsed == Sum([s \in Stages |-> Cnt(done.all, <<s, "CANCELED">>)], Stages)

MCInit == \E p \in Programs : InitWith(p)

Siblings(t) == TasksOf(StageOf(t)) \ {t}
BeginEnv(w) ==
  \/ status["wf"] = "NOT_STARTED" /\ Begin(w, "StartWorkflow", "wf", "")
  \/ \E s \in Stages : status["wf"] = "RUNNING" /\ status[s] = "NOT_STARTED" /\ Begin(w, "StartStage", s, "")
  \/ \E t \in Tasks : /\ status[StageOf(t)] = "RUNNING" /\ status[t] = "NOT_STARTED"
                      /\ \A u \in Siblings(t) : status[u] # "RUNNING"
                      /\ Begin(w, "StartTask", t, "")
  \/ \E t \in Tasks, o \in TaskOutcomes : status[t] = "RUNNING" /\ Begin(w, "CompleteTask", t, o)
  \/ \E s \in Stages : /\ status[s] = "RUNNING"
                       /\ DetermineStatus(s) \notin {"RUNNING", "NOT_STARTED", "SUSPENDED"}
                       /\ Begin(w, "CompleteStage", s, "")
  \/ \E s \in Stages : /\ status["wf"] = "RUNNING" /\ status[s] = "NOT_STARTED" /\ SkipsUsed < MaxSkips
                       /\ Begin(w, "SkipStage", s, "")
  \/ \E s \in Stages : /\ status["wf"] # "NOT_STARTED" /\ status[s] \in {"NOT_STARTED", "RUNNING"}
                       /\ CancelsUsed < MaxCancels
                       /\ Begin(w, "CancelStage", s, "")
  \/ /\ status["wf"] = "RUNNING" /\ FinalDetermined
     /\ \A s \in Stages : status[s] # "RUNNING"
     /\ Begin(w, "CompleteWorkflow", "wf", "")
  \/ \E s \in Stages : /\ status["wf"] = "RUNNING" /\ status[s] \in CompleteSt /\ cnt.force < MaxForce
                       /\ Begin(w, "JumpToStage", s, "")

Force(w) ==
  \/ /\ cur[w].h = "JumpToStage"                       \* re-arm: the stage and its tasks back to NOT_STARTED, no event
     /\ ForceCommit(w, [x \in {cur[w].e} \cup TasksOf(cur[w].e) |-> "NOT_STARTED"], TRUE)
  \/ /\ cur[w].h = "StartStage" /\ cnt.force < MaxForce /\ status[cur[w].e] = "NOT_STARTED"   \* wait-retry give-up
     /\ ForceCommit(w, [x \in {cur[w].e} |-> "TERMINAL"], TRUE)

(* named wrappers: one coverage line per specification action *)
MC_AppendInTxn(w) == \E e \in InTxnEvents(w) : AppendInTxn(w, e)
MC_RecordOwn(w)   == \E e \in OwnEvent(w) : RecordOwn(w, e)
MC_Raise(w)       == cur[w].rb /\ cur[w].pc \in {"run", "claimed", "post", "done"} /\ Raise(w)
MC_Rollback(w) ==
  /\ cnt.rollbacks < MaxRollbacks           \* a failing completion transaction: CAS conflict before the append
  /\ cur[w].h \in {"CompleteTask", "CompleteStage"} \/ tx[w].open      \* or an exception after it
  /\ cur[w].pc \in {"run", "appended"}
  /\ Rollback(w)
MC_Crash == cnt.crashes < MaxCrashes /\ Crash

Step(w) ==
  \/ BeginEnv(w)
  \/ StartWorkflowCommit(w) \/ StartStageClaim(w) \/ StartStageReplan(w) \/ StartStagePlan(w)
  \/ StartTaskCommit(w) \/ CancelStageCommit(w) \/ Force(w)
  \/ MC_AppendInTxn(w) \/ MC_RecordOwn(w)
  \/ Publish(w) \/ AuditRecord(w)
  \/ CompleteTaskCommit(w) \/ CompleteStageCommit(w) \/ CompleteStageErrorCommit(w)
  \/ SkipStageCommit(w) \/ CompleteWorkflowCommit(w)
  \/ Return(w) \/ MC_Raise(w) \/ MC_Rollback(w)

MCNext == (\E w \in Workers : Step(w)) \/ MC_Crash

MCView == <<prog, status, ev, cur, tx, pend, bus, wr, done, cnt>>

-----------------------------------------------------------------------------
SP(n) ==
  CASE n = "C13_NoPhantom" -> C13_NoPhantom
    [] n = "C13_NoPhantomSkip" -> C13_NoPhantomSkip
    [] n = "C13_NoMissing" -> C13_NoMissing
    [] n = "C13_PublishAfterCommit" -> C13_PublishAfterCommit
    [] n = "C13_SeqMonotone" -> C13_SeqMonotone
    [] n = "C12_ReplayMatches" -> C12_ReplayMatches
    [] n = "C12_ReplayMatchesCanceledTasks" -> C12_ReplayMatchesCanceledTasks
    [] n = "C12_Prefix" -> C12_Prefix
    [] n = "C12_Snapshot" -> C12_Snapshot
    [] n = "TypeOK" -> TypeOK
Failed == {n \in CheckProps : ~SP(n)}
StateJson == ToJson([prog |-> prog.name, status |-> status, ev |-> ev, bus |-> bus, cur |-> cur, tx |-> tx,
                     pend |-> pend, wr |-> wr, cnt |-> cnt, act |-> act])
(* every failure prints a short line (counted by the harness); the full state only once per formula,
   action and TLC worker (register 4 is per worker) *)
ASSUME TLCSet(4, {})
Report(n) == /\ PrintT(<<"V", n, act.n>>)
             /\ IF <<n, act.n>> \in TLCGet(4) THEN TRUE
                ELSE TLCSet(4, TLCGet(4) \cup {<<n, act.n>>}) /\ PrintT(<<"VIOL", n, act.n, StateJson>>)
NoViolation == Failed = {} \/ ((\A n \in Failed : Report(n)) /\ FALSE)
DepthBound == TLCGet("level") <= MaxDepth
=============================================================================
