-------------------------- MODULE MC_ReducersCases --------------------------
(***************************************************************************)
(* Evaluation root for cases that come from OUTSIDE the enumerated grammar *)
(* (hypothesis-concretised values) and for planner scenarios.  The input   *)
(* file (IOEnv.CASES_JSON) is                                              *)
(*   [cases |-> <<[n, s]...>>, plans |-> <<[a, b, reds, own]...>>]         *)
(* with values in the tagged encoding of Reducers.tla.                     *)
(*  * case states (kind "case"): as in MC_Reducers - transitions swap two  *)
(*    adjacent branches, Laws / SwapLaw are checked, the result exported.  *)
(*  * plan states (kind "plan"): a fan-in  a -> b_1..b_n -> j ; `ord` is   *)
(*    the order in which get_upstream_stages hands the branches to the     *)
(*    planner, transitions swap two adjacent branches in it; exported is   *)
(*    the context PlanContext predicts for every order `ao` in which the   *)
(*    ancestor merge may visit the (mutually unordered) branches.          *)
(***************************************************************************)
EXTENDS Reducers, Json, IOUtils

\* Records built by JsonDeserialize keep the field order of the file; re-building every value with
\* the record constructor gives TLC's normal form (tag compared before payload).
RECURSIVE Fix(_)
Fix(x) == IF x.t = "list" THEN [t |-> "list", v |-> [i \in 1..Len(x.v) |-> Fix(x.v[i])]]
          ELSE IF x.t = "dict" THEN [t |-> "dict", v |-> [k \in DOMAIN x.v |-> Fix(x.v[k])]]
          ELSE [t |-> x.t, v |-> x.v]
FixDict(d) == [k \in DOMAIN d |-> Fix(d[k])]
Raw == JsonDeserialize(IOEnv.CASES_JSON)
In == [cases |-> [i \in 1..Len(Raw.cases) |->
                    [n |-> Raw.cases[i].n, s |-> [j \in 1..Len(Raw.cases[i].s) |-> Fix(Raw.cases[i].s[j])]]],
       plans |-> [i \in 1..Len(Raw.plans) |->
                    [a |-> FixDict(Raw.plans[i].a), own |-> FixDict(Raw.plans[i].own), reds |-> Raw.plans[i].reds,
                     b |-> [j \in 1..Len(Raw.plans[i].b) |-> FixDict(Raw.plans[i].b[j])]]]]

VARIABLES kind, idx, ord
vars == <<kind, idx, ord>>

Ident(n) == [i \in 1..n |-> i]
NB(i) == Len(In.plans[i].b)

Init == \/ /\ kind = "case" /\ idx \in 1..Len(In.cases) /\ ord = Ident(Len(In.cases[idx].s))
        \/ /\ kind = "plan" /\ idx \in 1..Len(In.plans) /\ ord = Ident(NB(idx))

Next == \E i \in 1..(Len(ord) - 1) :
           /\ ord' = [ord EXCEPT ![i] = ord[i + 1], ![i + 1] = ord[i]]
           /\ UNCHANGED <<kind, idx>>

\* ---- cases -------------------------------------------------------------
CName == In.cases[idx].n
CSlots(o) == Perm(In.cases[idx].s, o)
\* false formulas are recorded (printed), not halting - see MC_Reducers
Here == ToJson([kind |-> kind, i |-> idx, o |-> ord])
CaseLaws == (kind = "case" => OrderLaw(CName, CSlots(ord))) \/ PrintT(<<"VIOL", "OrderLaw", Here>>)
CaseSwapOK ==
  kind = "case" =>
      /\ CName \in Insensitive    => Apply(CName, CSlots(ord')) = Apply(CName, CSlots(ord))
      /\ CName \in BagInsensitive => SameItems(Apply(CName, CSlots(ord')), Apply(CName, CSlots(ord)))
      /\ (CName = "merge" /\ Compatible(CSlots(ord))) => Apply(CName, CSlots(ord')) = Apply(CName, CSlots(ord))
CaseSwap == [][CaseSwapOK \/ PrintT(<<"VIOL", "SwapLaw", Here>>)]_vars

\* ---- plans -------------------------------------------------------------
P == In.plans[idx]
Ctx(ao, uo) == PlanContext(<<P.a>> \o Perm(P.b, ao), Perm(P.b, uo), P.reds, P.own)
RedName(k) == P.reds[CHOOSE i \in 1..Len(P.reds) : P.reds[i][1] = k][2]
RedKeys == {P.reds[i][1] : i \in 1..Len(P.reds)}
\* the value the join stage sees under a key ("nokey" if the key is missing)
At(c, k) == IF IsErr(c) THEN c ELSE IF k \in DOMAIN c.v THEN c.v[k] ELSE NoKey
BranchSlots(k, uo) == SlotsOf(k, Perm(P.b, uo))

\* reducer keys do not depend on the ancestor-merge order at all, unless no branch has the key
\* (then the ancestor merge value shows through) ...
PlanLawsOK == kind = "plan" =>
  \A k \in RedKeys : \A ao \in PermsOf(NB(idx)) :
     LET c == Ctx(ao, ord) IN
     ~IsErr(c) =>
        /\ Present(BranchSlots(k, ord)) # <<>> => At(c, k) = Apply(RedName(k), SlotsOf(k, SelectSeq(Perm(P.b, ord), LAMBDA d : DOMAIN d # {})))
        \* ... and the stage's own value of a reducer key never shows
        /\ (Present(BranchSlots(k, ord)) = <<>> /\ k \notin DOMAIN P.a) => At(c, k) = NoKey
PlanLaws == PlanLawsOK \/ PrintT(<<"VIOL", "PlanLaw", Here>>)
\* ... and do not depend on the order the branches finished in for the order-insensitive reducers
PlanSwapOK ==
    (kind = "plan" =>
      \A k \in RedKeys : \A ao \in PermsOf(NB(idx)) :
         LET c == Ctx(ao, ord)  d == Ctx(ao, ord') IN
         /\ IsErr(c) <=> IsErr(d)
         /\ (~IsErr(c) /\ RedName(k) \in Insensitive) => At(c, k) = At(d, k)
         /\ (~IsErr(c) /\ RedName(k) \in BagInsensitive) => SameItems(At(c, k), At(d, k))
         /\ (~IsErr(c) /\ RedName(k) = "merge" /\ Compatible(BranchSlots(k, ord))) => At(c, k) = At(d, k))
PlanSwap == [][PlanSwapOK \/ PrintT(<<"VIOL", "PlanSwap", Here>>)]_vars

Export ==
  IF kind = "case"
  THEN PrintT(<<"CASE", ToJson([i |-> idx, o |-> ord, r |-> Apply(CName, CSlots(ord))])>>)
  ELSE PrintT(<<"PLAN", ToJson([i |-> idx, o |-> ord,
                                c |-> LET ps == SetToSeq(PermsOf(NB(idx)))
                                      IN [j \in 1..Len(ps) |-> [ao |-> ps[j], ctx |-> Ctx(ps[j], ord)]]])>>)
=============================================================================
