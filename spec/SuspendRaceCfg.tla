---- MODULE SuspendRaceCfg ----
\* sample of the generated configuration module (harness/check_progress.py writes the real one per run)
EXTENDS TLC
Writers == {"s1"}
NameOf == ("s1" :> "1")
InitRow == [ver |-> 3, status |-> "RUNNING", buf |-> <<>>, sig |-> ""]
MaxTries == 2
InnerRetries == 5
====
