------------------------------ MODULE Obs_Expr ------------------------------
(***************************************************************************)
(* Code -> spec direction for Expr: outcomes recorded from the REAL        *)
(* evaluate_expression, StartStage._should_skip and                        *)
(* CompleteStage._apply_split_logic are read from a JSON file and judged   *)
(* by the definitions of Expr.  One state per observation; a false formula *)
(* is PRINTED (not halted on).  Verdicts are TLC's.                        *)
(*                                                                         *)
(* observation (JSON object), by `what`:                                   *)
(*  "eval" : ast, ctx (1..3), kind ("value"|"experr"|"other"), v (encoded  *)
(*           value, or ["N"]), truthy ("T"|"F": bool() of the value as     *)
(*           observed, used only for values outside the modelled universe),*)
(*           pure ("T"|"F")                                                *)
(*  "fuzz" : text outside the grammar - kind, pure only                    *)
(*  "skip" : ast, ctx, kind ("value"|"other"), skip ("T"|"F")              *)
(*  "split": ast, ctx, kind, act0 / act1 (activated positions for the      *)
(*           downstream condition lists <<ast, "0">> and <<ast, none>>)    *)
(* Encodings are those of MC_Expr (EncV / EncA), decoded here.             *)
(***************************************************************************)
EXTENDS Expr, TLC, Json, IOUtils

Obs == JsonDeserialize(IOEnv.OBS_FILE)
N   == Len(Obs)

VARIABLE i
Init == i = 0
Step == i < N /\ i' = i + 1
Next == Step

RECURSIVE DecV(_), DecA(_)
DecV(x) == CASE x[1] = "N" -> None
             [] x[1] = "B" -> B(x[2])
             [] x[1] = "I" -> I(x[2])
             [] x[1] = "S" -> S(x[2])
             [] x[1] = "L" -> L([j \in 1..Len(x[2]) |-> DecV(x[2][j])])
             [] x[1] = "T" -> T([j \in 1..Len(x[2]) |-> DecV(x[2][j])])
             [] x[1] = "D" -> D([j \in 1..Len(x[2]) |-> <<DecV(x[2][j][1]), DecV(x[2][j][2])>>])
             [] OTHER      -> [t |-> "alien"]            \* a value outside the modelled universe
DecSeq(xs) == [j \in 1..Len(xs) |-> DecA(xs[j])]
DecA(x) == CASE x[1] = "name"  -> Name(x[2])
             [] x[1] = "const" -> Const(DecV(x[2]))
             [] x[1] = "attr"  -> Attr(DecA(x[2]), x[3])
             [] x[1] = "sub"   -> Sub(DecA(x[2]), DecA(x[3]))
             [] x[1] = "slice" -> Slice(DecA(x[2]), DecA(x[3]))
             [] x[1] = "cmp"   -> Cmp(DecA(x[2]), x[3], DecSeq(x[4]))
             [] x[1] = "bool"  -> BoolOp(x[2], DecSeq(x[3]))
             [] x[1] = "un"    -> Un(x[2], DecA(x[3]))
             [] x[1] = "if"    -> IfExp(DecA(x[2]), DecA(x[3]), DecA(x[4]))
             [] x[1] = "list"  -> ListD(DecSeq(x[2]))
             [] x[1] = "tuple" -> TupleD(DecSeq(x[2]))
             [] x[1] = "unsup" -> Unsup(x[2], DecSeq(x[3]))

Outcome(o) == IF o.kind # "value" THEN [kind |-> o.kind]
              ELSE IF DecV(o.v).t = "alien" THEN [kind |-> "alien", truthy |-> (o.truthy = "T")]
              ELSE [kind |-> "value", v |-> DecV(o.v)]
SeqToSet(s) == {s[k] : k \in 1..Len(s)}

\* ---- the property (a false one is a VIOLATION) --------------------------
C20_Total(o)      == o.what \in {"eval", "fuzz"} => Total(Outcome(o))
C20_Pure(o)       == o.pure = "T"
C20_NoCrash(o)    == o.what \in {"skip", "split"} => o.kind # "other"
C20_SameBranch(o) == (o.what = "eval" /\ Total(Outcome(o))) => SameBranch(Outcome(o), DecA(o.ast), Ctxs[o.ctx])
C20_SkipDecision(o)  == (o.what = "skip" /\ o.kind = "value") =>
                           (o.skip = "T") = ShouldSkip(DecA(o.ast), Ctxs[o.ctx])
C20_SplitDecision(o) == (o.what = "split" /\ o.kind = "value") =>
                           /\ SeqToSet(o.act0) = SplitActivated(<<DecA(o.ast), Const(I(0))>>, Ctxs[o.ctx])
                           /\ SeqToSet(o.act1) = SplitActivated(<<DecA(o.ast), NoCond>>, Ctxs[o.ctx])
\* ---- exact conformance (false with the same branch decision: DRIFT) -----
D_Conf(o)         == (o.what = "eval" /\ Total(Outcome(o))) => Conf(Outcome(o), DecA(o.ast), Ctxs[o.ctx])

Holds(f, o) == CASE f = "C20_Total"         -> C20_Total(o)
                 [] f = "C20_Pure"          -> C20_Pure(o)
                 [] f = "C20_NoCrash"       -> C20_NoCrash(o)
                 [] f = "C20_SameBranch"    -> C20_SameBranch(o)
                 [] f = "C20_SkipDecision"  -> C20_SkipDecision(o)
                 [] f = "C20_SplitDecision" -> C20_SplitDecision(o)
                 [] f = "D_Conf"            -> D_Conf(o)
Formulas == {"C20_Total", "C20_Pure", "C20_NoCrash", "C20_SameBranch", "C20_SkipDecision", "C20_SplitDecision", "D_Conf"}

\* the error site the specification names for this case ("" when it predicts a value / for fuzz)
SiteOf(o) == IF o.what = "fuzz" THEN ""
             ELSE LET r == EvalTop(DecA(o.ast), Ctxs[o.ctx]) IN IF IsErr(r) THEN r.site ELSE ""

Judge == i = 0 \/ \A f \in Formulas : Holds(f, Obs[i]) \/ PrintT(<<"FAIL", i, f, SiteOf(Obs[i])>>)
=============================================================================
