---- MODULE SlotsCfg ----
\* sample configuration (harness/check_slots.py writes the real one per run)
EXTENDS TLC
Workflows == <<"w1", "w2">>
Limit == 1
Recheck == TRUE
Workers == {"a"}
InitStatus == ("w1" :> "NOT_STARTED" @@ "w2" :> "NOT_STARTED")
InitQueue == {[typ |-> "StartWorkflow", w |-> "w1", n |-> 1], [typ |-> "StartWorkflow", w |-> "w2", n |-> 2]}
====
