---- MODULE MC_SuspendRace ----
\* export root for SuspendRace.tla: prints the initial state and every explored edge as JSON
EXTENDS SuspendRace, Json
Proj == [row |-> row, runtasks |-> runtasks, done |-> done, inq |-> inq, wk |-> wk, got |-> got]
Edge == PrintT(<<"EDGE", ToJson(Proj), ToJson(Proj')>>)
InitP == Init /\ PrintT(<<"INIT", ToJson(Proj)>>)
====
