#!/bin/bash
# tools/run_all.sh <tier> [ids...] : run checks one after the other, print one summary line each
tier=${1:-quick}; shift
ids=${*:-C01 C02 C03 C04 C05 C06 C07 C08 C09 C10 C11 C14 C15 C16 C17 C18 C19 C20 C12 C13}
cd "$(dirname "$0")/.."
for c in $ids; do
  t0=$(date +%s)
  ./check $c --tier $tier > /tmp/runall_$c.out 2>&1; rc=$?
  t1=$(date +%s)
  echo "$c tier=$tier rc=$rc wall=$((t1-t0))s known=$(grep -c '^KNOWN-FINDING' /tmp/runall_$c.out) viol=$(grep -c '^VIOLATION' /tmp/runall_$c.out) mach=$(grep -c '^MACHINERY' /tmp/runall_$c.out)"
done
