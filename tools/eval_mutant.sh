#!/bin/bash
# usage: tools/eval_mutant.sh <property id> <mutant dir with patch.diff> [check ids to run, default = property id]
# Applies the patch to a scratch copy of /repo/src (never to /repo), runs the check(s) against it.
set -u
PID=$1; MDIR=$2; shift 2; CHECKS=${*:-$PID}
TAG=$(echo "$MDIR" | tr '/' '_')
COPY=/dev/shm/mutrepo$TAG
rm -rf "$COPY"; mkdir -p "$COPY"; cp -r /repo/src "$COPY/src"
( cd "$COPY" && patch -p1 -s < "$MDIR/patch.diff" ) || { echo "PATCH FAILED"; exit 3; }
for c in $CHECKS; do
  echo "=== $c against $MDIR"
  ( cd /verif && VERIF_REPO="$COPY" VERIF_EVIDENCE_DIR=/dev/shm/mutevidence$TAG ./check $c --tier quick 2>&1 | grep -E "^VIOLATION|^KNOWN|^MACHINERY|^C[0-9][0-9]:" | cut -c1-300 | head -8 ; echo "exit=${PIPESTATUS[0]}" )
done
rm -rf "$COPY"
