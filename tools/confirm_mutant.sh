#!/bin/bash
# usage: tools/confirm_mutant.sh <seed id> <mutant dir (patch.diff + demo_test.py|demo.py)> <property id> <what it needs (text)>
# Independent confirmation in a fresh scratch worktree: demo passes unchanged, fails with the change,
# the repository's test-suite (sqlite) still passes with the change.  Writes /verif/seeded/<seed id>/.
set -u
SID=$1; MDIR=$2; PID=$3; NEEDS=${4:-}
WT=/tmp/confirm/$SID
OUT=/verif/seeded/$SID
mkdir -p "$OUT" /tmp/confirm
git -C /repo worktree remove --force "$WT" 2>/dev/null
git -C /repo worktree add -q --detach "$WT" HEAD || exit 3
cp "$MDIR/patch.diff" "$OUT/patch.diff"
DEMO=$(ls "$MDIR"/demo_test.py "$MDIR"/demo.py 2>/dev/null | head -1)
cp "$DEMO" "$OUT/"; [ -f "$MDIR/README.md" ] && cp "$MDIR/README.md" "$OUT/README.md"
mkdir -p "$WT/_demo"; cp "$DEMO" "$WT/_demo/"
DN=$(basename "$DEMO")
run_demo() { if [ "$DN" = demo_test.py ]; then ( cd "$WT" && PYTHONPATH="$WT/src" timeout 900 /venv/bin/python -m pytest -q -p no:cacheprovider _demo/demo_test.py 2>&1 | tail -3 ); else ( cd "$WT" && PYTHONPATH="$WT/src" timeout 900 /venv/bin/python _demo/demo.py 2>&1 | tail -3; echo "exit=$?" ); fi; }
{
echo "== demo on the unchanged tree"; run_demo
( cd "$WT" && git apply "$OUT/patch.diff" ) && echo "== patch applied" || echo "== PATCH FAILED"
echo "== demo with the change"; run_demo
echo "== test-suite with the change"
( cd "$WT" && PYTHONPATH="$WT/src" timeout 3000 /venv/bin/python -m pytest -q -p no:cacheprovider --timeout=900 --continue-on-collection-errors -k "not postgres" -rf 2>&1 | grep -E "^FAILED|passed|failed" | tail -8 > /tmp/confirm/$SID.suite; cat /tmp/confirm/$SID.suite
  # timing-sensitive threaded tests fail sporadically under load (also on the unchanged tree): re-run failures alone
  for t in $(grep "^FAILED" /tmp/confirm/$SID.suite | awk '{print $2}'); do
    echo "-- re-run of $t (3x):"
    for i in 1 2 3; do PYTHONPATH="$WT/src" timeout 600 /venv/bin/python -m pytest -q -p no:cacheprovider --timeout=900 "$t" 2>&1 | tail -1; done
  done )
} > "$OUT/confirm.log" 2>&1
git -C /repo worktree remove --force "$WT"
python3 - "$OUT" "$PID" "$NEEDS" <<'PY'
import json,sys,re
out,pid,needs=sys.argv[1:4]
log=open(out+'/confirm.log').read()
parts=log.split('== ')
d={p.split('\n',1)[0]:p.split('\n',1)[1] if '\n' in p else '' for p in parts if p.strip()}
meta={"breaks_property":pid,"needs_to_manifest":needs,
 "demo_unchanged":d.get('demo on the unchanged tree','').strip()[-300:],
 "demo_with_change":d.get('demo with the change','').strip()[-300:],
 "suite_with_change":d.get('test-suite with the change','').strip()[-200:],
 "confirmed_by":"tools/confirm_mutant.sh in a scratch worktree of /repo (removed afterwards)"}
import os
if os.path.exists(out+'/meta.json'):
    old=json.load(open(out+'/meta.json')); old.update(meta); meta=old
json.dump(meta,open(out+'/meta.json','w'),indent=1)
print(out, meta["demo_unchanged"][-60:].replace('\n',' '),'|',meta["demo_with_change"][-60:].replace('\n',' '),'|',meta["suite_with_change"][-80:].replace('\n',' '))
PY
