#!/usr/bin/env python3
"""tools/record_detection.py <seed id> <check id> <caught|missed> <note...> : record in seeded/<id>/meta.json which check detects the change"""
import json, sys, os
sid, chk, res = sys.argv[1:4]; note=" ".join(sys.argv[4:])
p=os.path.join(os.path.dirname(os.path.dirname(os.path.abspath(__file__))),"seeded",sid,"meta.json")
m=json.load(open(p)) if os.path.exists(p) else {}
m.setdefault("detection",{})[chk]={"result":res,"note":note,"how":"tools/eval_mutant.sh: patch applied to a scratch copy of /repo/src, ./check %s --tier quick with VERIF_REPO pointing at it"%chk}
os.makedirs(os.path.dirname(p),exist_ok=True)
json.dump(m,open(p,"w"),indent=1)
