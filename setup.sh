#!/bin/sh
# Offline setup: nothing to fetch.  Verifies the tool chain and parses the registered specs.
set -e
cd "$(dirname "$0")"
command -v tlc >/dev/null
/venv/bin/python -c "import stabilize, hypothesis"
for m in $(cat spec/MODULES); do
  ( cd spec && tla-sany "$m.tla" >/dev/null 2>&1 ) || { echo "SANY failed: $m"; ( cd spec && tla-sany "$m.tla" | tail -20 ); exit 1; }
done
python3 -c "import json;json.load(open('MANIFEST.json'));json.load(open('known_findings.json'))"
mkdir -p run evidence
echo setup ok
