#!/bin/sh
# Offline setup: nothing to fetch.  Verifies the tool chain and parses every spec.
set -e
cd "$(dirname "$0")"
command -v tlc >/dev/null
/venv/bin/python -c "import stabilize, hypothesis" 
for f in spec/*.tla; do
  [ -e "$f" ] || continue
  ( cd spec && tla-sany "$(basename "$f")" >/dev/null 2>&1 ) || { echo "SANY failed: $f"; ( cd spec && tla-sany "$(basename "$f")" | tail -20 ); exit 1; }
done
python3 -c "import json;json.load(open('MANIFEST.json'))"
echo setup ok
